//! C18 helper: decode a package file with the real dora-bytecode decoder, re-encode it and
//! compare byte for byte. Exit 0 = identical, 1 = differs, 2 = refused by the decoder.
fn main() {
    let path = std::env::args().nth(1).expect("usage: pkgrt <package>");
    let bytes = std::fs::read(&path).expect("cannot read package");
    let program = match dora_bytecode::read_program_from_file(std::path::Path::new(&path)) {
        Ok(p) => p,
        Err(e) => {
            println!("refused: {}", e);
            std::process::exit(2);
        }
    };
    let again = dora_bytecode::encode_program_to_bytes(&program);
    if again == bytes {
        println!("roundtrip ok {}", bytes.len());
    } else {
        println!("roundtrip differs {} vs {}", bytes.len(), again.len());
        std::process::exit(1);
    }
}
