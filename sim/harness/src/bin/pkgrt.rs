//! C18 helper linked against the real dora-bytecode decoder.
//!   pkgrt <package>                       decode, re-encode, compare: 0 identical, 1 differs, 2 refused
//!   pkgrt --sweep <package> <tstride> <fstride>
//!       in-process fault sweep: every tstride-th single-byte truncation, every bit of the first
//!       and last 64 bytes, and one bit of every fstride-th byte; every damaged image must be
//!       refused by the decoder. Prints one "ACCEPTED ..." / "PANIC ..." line per offending case
//!       and a "SWEEP truncations=N flips=M offending=K" summary; exit 1 if any case offends.
use std::panic::{catch_unwind, AssertUnwindSafe};

fn main() {
    let args: Vec<String> = std::env::args().collect();
    if args.len() >= 5 && args[1] == "--sweep" {
        std::panic::set_hook(Box::new(|_| {}));
        let bytes = std::fs::read(&args[2]).expect("cannot read package");
        let tstride: usize = args[3].parse().unwrap();
        let fstride: usize = args[4].parse().unwrap();
        let n = bytes.len();
        let mut offending = 0usize;
        let mut truncs = 0usize;
        let mut flips = 0usize;
        let mut check = |what: String, data: &[u8]| {
            let r = catch_unwind(AssertUnwindSafe(|| dora_bytecode::decode_program_from_bytes(data).is_ok()));
            match r {
                Ok(false) => {}
                Ok(true) => {
                    println!("ACCEPTED {}", what);
                    offending += 1;
                }
                Err(_) => {
                    println!("PANIC {}", what);
                    offending += 1;
                }
            }
        };
        let mut k = 0;
        while k < n {
            check(format!("truncate {}", k), &bytes[..k]);
            truncs += 1;
            k += tstride.max(1);
        }
        let mut positions: Vec<(usize, u8)> = Vec::new();
        for k in (0..n.min(64)).chain(n.saturating_sub(64)..n) {
            for b in 0..8u8 {
                positions.push((k, b));
            }
        }
        let mut k = 64;
        while k + 64 < n {
            positions.push((k, ((k * 7) % 8) as u8));
            k += fstride.max(1);
        }
        let mut copy = bytes.clone();
        for (k, b) in positions {
            copy[k] ^= 1 << b;
            check(format!("bitflip {} {}", k, b), &copy);
            copy[k] ^= 1 << b;
            flips += 1;
        }
        println!("SWEEP truncations={} flips={} offending={}", truncs, flips, offending);
        std::process::exit(if offending > 0 { 1 } else { 0 });
    }
    let path = args.get(1).expect("usage: pkgrt <package> | --sweep <package> <tstride> <fstride>");
    let bytes = std::fs::read(path).expect("cannot read package");
    let program = match dora_bytecode::read_program_from_file(std::path::Path::new(path)) {
        Ok(p) => p,
        Err(e) => {
            println!("refused: {}", e);
            std::process::exit(2);
        }
    };
    let again = dora_bytecode::encode_program_to_bytes(&program);
    if again == bytes {
        println!("roundtrip ok {}", bytes.len());
    } else {
        println!("roundtrip differs {} vs {}", bytes.len(), again.len());
        std::process::exit(1);
    }
}
