//! C04 / Tier A: the real stop-the-world protocol (safepoint.rs, threads.rs) under the
//! seeded scheduler.
//!
//! Real: `stop_the_world`, `stop_threads`, `resume_threads`, `safepoint_slow`,
//! `DoraThread::{park,park_slow,unpark,unpark_slow,join,stop}`, `parked_scope`, `Barrier`,
//! `Threads::{add_main_thread,add_thread,remove_current_thread,join_all}`, the runtime state.
//! Stub: compiled code's safepoint poll (`cmpb [tld.state], 0; jne slow`) is the two-line
//! `poll()` below; "managed work" is a step that sets a harness flag and touches a fake heap
//! word; the collector is the checking closure; the Runtime uses the zero collector and an
//! empty Program.

use dora_runtime::verif::*;
use harness::{main_for, Scenario, Stats};
use serde::{Deserialize, Serialize};
use std::sync::atomic::{AtomicBool, AtomicU64, AtomicUsize, Ordering};
use std::sync::{Arc, Mutex as StdMutex};
use verif_rt::prng::Prng;

#[derive(Serialize, Deserialize, Clone, Debug, PartialEq)]
enum Op {
    /// safepoint poll as emitted at loop back-edges / function entries
    Poll,
    /// a step of managed code (touches the heap)
    Work,
    /// a native call: parked_scope around k scheduling points
    Native(u8),
    /// request a stop-the-world operation whose body runs `k` scheduling points
    Stw(u8),
    /// start thread `t` (index into `threads`)
    Spawn(usize),
    /// join thread `t` (spawned earlier by this thread)
    Join(usize),
}

#[derive(Serialize, Deserialize, Clone, Debug)]
struct StwScenario {
    /// threads[0] is the main thread
    threads: Vec<Vec<Op>>,
}

const P_STW_OPS: usize = 0;
const P_SLOW_POLL: usize = 1;
const P_SPAWNS: usize = 2;
const P_JOINS: usize = 3;
const P_NATIVE: usize = 4;
const P_STW_MULTI: usize = 5;
const P_POLL_FAST: usize = 6;
const P_PARKED_REQ_SEEN: usize = 7;

struct World {
    rt: &'static Runtime,
    mutating: Vec<AtomicBool>,
    heap_word: AtomicU64,
    stw_done: AtomicUsize,
    in_closure: AtomicUsize,
    spawned: Vec<StdMutex<Option<Arc<DoraThread>>>>,
    finished: Vec<AtomicBool>,
    scenario: StwScenario,
    stats: usize,
}

impl World {
    fn stats(&self) -> &Stats {
        unsafe { &*(self.stats as *const Stats) }
    }
}

static RT_SET: AtomicBool = AtomicBool::new(false);

fn empty_program() -> dora_bytecode::Program {
    dora_bytecode::Program {
        packages: Vec::new(),
        modules: Vec::new(),
        functions: Vec::new(),
        function_intrinsics: Vec::new(),
        globals: Vec::new(),
        consts: Vec::new(),
        classes: Vec::new(),
        structs: Vec::new(),
        enums: Vec::new(),
        traits: Vec::new(),
        impls: Vec::new(),
        extensions: Vec::new(),
        aliases: Vec::new(),
        source_files: Vec::new(),
        stdlib_package_id: dora_bytecode::PackageId::from(0usize),
        program_package_id: dora_bytecode::PackageId::from(0usize),
        main_fct_id: None,
    }
}

fn poll(w: &World) {
    let thread = current_thread();
    // cmpb [tld.state], Running ; jne slow
    if thread.tld.state.load(Ordering::Relaxed) != ThreadState::Running as u8 {
        w.stats().probe(P_SLOW_POLL);
        safepoint_slow();
    } else {
        w.stats().probe(P_POLL_FAST);
    }
}

fn check_world_stopped(w: &World, me: usize, when: &str) {
    for (t, m) in w.mutating.iter().enumerate() {
        if t != me && m.load(Ordering::Relaxed) {
            verif_rt::monitor::fail("M-stw", &format!("thread {} is executing managed code {} the stop-the-world operation of thread {}", t, when, me));
        }
    }
    if w.in_closure.load(Ordering::Relaxed) != 1 {
        verif_rt::monitor::fail("M-stw", "more than one stop-the-world operation active");
    }
    if !w.rt.state().in_safepoint() {
        verif_rt::monitor::fail("M-stw", "runtime state is not Safepoint inside the operation");
    }
}

fn run_ops(w: &Arc<World>, me: usize) {
    let ops = w.scenario.threads[me].clone();
    for op in ops {
        match op {
            Op::Poll => poll(w),
            Op::Work => {
                if verif_rt::monitor::stw_active() {
                    verif_rt::monitor::fail("M-stw", &format!("thread {} started a managed step while the world is stopped", me));
                }
                w.mutating[me].store(true, Ordering::Relaxed);
                verif_rt::sched_point();
                w.heap_word.fetch_add(1, Ordering::Relaxed);
                verif_rt::sched_point();
                if verif_rt::monitor::stw_active() {
                    verif_rt::monitor::fail("M-stw", &format!("thread {} was inside a managed step when the world got stopped", me));
                }
                w.mutating[me].store(false, Ordering::Relaxed);
            }
            Op::Native(k) => {
                w.stats().probe(P_NATIVE);
                parked_scope(|| {
                    for _ in 0..k {
                        verif_rt::sched_point();
                    }
                });
            }
            Op::Stw(k) => {
                let w2 = w.clone();
                stop_the_world(w.rt, |threads| {
                    w2.in_closure.fetch_add(1, Ordering::Relaxed);
                    w2.stats().probe(P_STW_OPS);
                    if threads.len() > 1 {
                        w2.stats().probe(P_STW_MULTI);
                    }
                    for t in threads {
                        if t.tld.state.peek() == ThreadState::ParkedSafepointRequested as u8 {
                            w2.stats().probe(P_PARKED_REQ_SEEN);
                        }
                    }
                    check_world_stopped(&w2, me, "at the start of");
                    let before = w2.heap_word.load(Ordering::Relaxed);
                    for _ in 0..k {
                        verif_rt::sched_point();
                        check_world_stopped(&w2, me, "during");
                    }
                    if w2.heap_word.load(Ordering::Relaxed) != before {
                        verif_rt::monitor::fail("M-stw", "the managed heap changed during a stop-the-world operation");
                    }
                    w2.stw_done.fetch_add(1, Ordering::Relaxed);
                    w2.in_closure.fetch_sub(1, Ordering::Relaxed);
                });
            }
            Op::Spawn(t) => {
                w.stats().probe(P_SPAWNS);
                // mirrors stdlib.rs::spawn_thread / thread_main
                let thread = DoraThread::new(w.rt, ThreadState::Parked);
                w.rt.threads.add_thread(thread.clone());
                *w.spawned[t].lock().unwrap() = Some(thread.clone());
                let w2 = w.clone();
                shuttle::thread::spawn(move || {
                    let thread = init_current_thread(thread);
                    thread.unpark(w2.rt);
                    run_ops(&w2, t);
                    w2.finished[t].store(true, Ordering::Relaxed);
                    w2.rt.threads.remove_current_thread();
                    thread.stop();
                    deinit_current_thread();
                });
            }
            Op::Join(t) => {
                w.stats().probe(P_JOINS);
                let th = w.spawned[t].lock().unwrap().clone().expect("join before spawn");
                th.join();
                if !w.finished[t].load(Ordering::Relaxed) {
                    verif_rt::monitor::fail("M-join", &format!("join of thread {} returned before the thread had finished", t));
                }
            }
        }
    }
}

impl Scenario for StwScenario {
    const PROPERTY: &'static str = "C04";
    const HARNESS: &'static str = "stw";

    fn generate(rng: &mut Prng) -> Self {
        let nthreads = rng.range(2, 4) as usize;
        let mut threads: Vec<Vec<Op>> = vec![Vec::new(); nthreads];
        // spawn tree: thread t>0 is spawned by a random earlier thread
        let mut parent = vec![0usize; nthreads];
        for t in 1..nthreads {
            parent[t] = rng.below(t as u64) as usize;
        }
        let stw_heavy = rng.chance(1, 3);
        for t in 0..nthreads {
            let len = rng.range(1, 7) as usize;
            let mut ops = Vec::new();
            for _ in 0..len {
                let r = rng.below(100);
                let op = if stw_heavy && r < 40 {
                    Op::Stw(rng.below(4) as u8)
                } else if r < 20 {
                    Op::Stw(rng.below(4) as u8)
                } else if r < 50 {
                    Op::Poll
                } else if r < 72 {
                    Op::Work
                } else {
                    Op::Native(rng.below(4) as u8)
                };
                ops.push(op);
            }
            threads[t] = ops;
        }
        // insert spawns (and optional joins) into the parents
        for t in 1..nthreads {
            let p = parent[t];
            let pos = rng.below(threads[p].len() as u64 + 1) as usize;
            threads[p].insert(pos, Op::Spawn(t));
            if rng.chance(1, 2) {
                let jpos = rng.range(pos as u64 + 1, threads[p].len() as u64) as usize;
                threads[p].insert(jpos, Op::Join(t));
            }
        }
        // a spawn must precede the child's own spawns' parents: parent index < child index
        // and every thread only starts after its Spawn op, so the order is consistent.
        StwScenario { threads }
    }

    fn max_tasks(&self) -> u32 {
        self.threads.len() as u32
    }

    fn probe_names() -> &'static [&'static str] {
        &["stw_operations_run", "safepoint_slow_taken", "threads_spawned", "joins", "native_scopes", "stw_with_other_threads", "poll_fast_path", "stw_saw_parked_safepoint_requested"]
    }

    fn fault_names() -> &'static [&'static str] {
        &[]
    }

    fn size(&self) -> usize {
        self.threads.iter().map(|t| t.len() + 1).sum::<usize>()
            + self.threads.iter().flatten().map(|o| match o {
                Op::Native(k) | Op::Stw(k) => *k as usize,
                _ => 0,
            }).sum::<usize>()
    }

    fn est_steps(&self) -> u32 {
        (30 * self.threads.iter().map(|t| t.len()).sum::<usize>()) as u32 + 40
    }

    fn shrink_candidates(&self) -> Vec<Self> {
        let mut out = Vec::new();
        for t in 0..self.threads.len() {
            for i in 0..self.threads[t].len() {
                match &self.threads[t][i] {
                    Op::Spawn(c) => {
                        // drop a whole leaf thread (no spawns of its own), with its join
                        let c = *c;
                        if self.threads[c].iter().any(|o| matches!(o, Op::Spawn(_))) {
                            continue;
                        }
                        let mut s = self.clone();
                        s.threads[t].retain(|o| *o != Op::Spawn(c) && *o != Op::Join(c));
                        s.threads[c].clear();
                        out.push(s);
                    }
                    Op::Join(_) => {
                        let mut s = self.clone();
                        s.threads[t].remove(i);
                        out.push(s);
                    }
                    Op::Native(k) | Op::Stw(k) if *k > 0 => {
                        let mut s = self.clone();
                        s.threads[t][i] = match &self.threads[t][i] {
                            Op::Native(_) => Op::Native(0),
                            _ => Op::Stw(0),
                        };
                        out.push(s);
                        let mut s = self.clone();
                        s.threads[t].remove(i);
                        out.push(s);
                    }
                    _ => {
                        let mut s = self.clone();
                        s.threads[t].remove(i);
                        out.push(s);
                    }
                }
            }
        }
        out
    }

    fn stack_size() -> usize {
        0x20000
    }

    fn max_steps() -> usize {
        // fault-free runs of the largest scenarios stay below ~1500 steps; 30k is > 20x that
        30_000
    }

    fn run(&self, stats: &Stats) {
        let flags = RuntimeFlags {
            gc_stress: false,
            gc_stress_minor: false,
            gc_stats: false,
            gc_verbose: false,
            gc_verify: false,
            gc_worker: 1,
            gc_young_size: None,
            gc: Some(dora_runtime::CollectorName::Zero),
            min_heap_size: None,
            max_heap_size: Some(dora_runtime::MemSize(1 << 20)),
            readonly_size: Some(dora_runtime::MemSize(1 << 16)),
            disable_tlab: false,
            snapshot_on_oom: None,
        };
        let mut rt = Runtime::new(empty_program(), flags, Vec::new());
        static SHAPE_SPACE: [u64; 64] = [0; 64];
        rt.set_shape_space(Address::from_ptr(SHAPE_SPACE.as_ptr()), 512);
        let rt: &'static Runtime = Box::leak(rt);
        if RT_SET.swap(true, Ordering::Relaxed) {
            dora_runtime::clear_runtime();
        }
        dora_runtime::set_runtime(rt);

        let n = self.threads.len();
        let w = Arc::new(World {
            rt,
            mutating: (0..n).map(|_| AtomicBool::new(false)).collect(),
            heap_word: AtomicU64::new(0),
            stw_done: AtomicUsize::new(0),
            in_closure: AtomicUsize::new(0),
            spawned: (0..n).map(|_| StdMutex::new(None)).collect(),
            finished: (0..n).map(|_| AtomicBool::new(false)).collect(),
            scenario: self.clone(),
            stats: stats as *const Stats as usize,
        });

        // mirrors runtime.rs::execute_on_main
        let main = DoraThread::new(rt, ThreadState::Running);
        init_current_thread(main.clone());
        rt.threads.add_main_thread(main.clone());
        run_ops(&w, 0);
        rt.threads.remove_current_thread();
        deinit_current_thread();
        rt.threads.join_all();

        // post-conditions
        let expected_stw = self.threads.iter().flatten().filter(|o| matches!(o, Op::Stw(_))).count();
        // threads that were never spawned (their Spawn op was shrunk away) do not run
        let mut reachable = vec![false; n];
        reachable[0] = true;
        let mut changed = true;
        while changed {
            changed = false;
            for t in 0..n {
                if reachable[t] {
                    for o in &self.threads[t] {
                        if let Op::Spawn(c) = o {
                            if !reachable[*c] {
                                reachable[*c] = true;
                                changed = true;
                            }
                        }
                    }
                }
            }
        }
        let expected_stw_reachable = (0..n).filter(|t| reachable[*t]).map(|t| self.threads[t].iter().filter(|o| matches!(o, Op::Stw(_))).count()).sum::<usize>();
        let _ = expected_stw;
        if w.stw_done.load(Ordering::Relaxed) != expected_stw_reachable {
            verif_rt::monitor::fail("M-stw", &format!("{} stop-the-world operations ran, {} were requested", w.stw_done.load(Ordering::Relaxed), expected_stw_reachable));
        }
        if !rt.threads.threads.lock().is_empty() {
            verif_rt::monitor::fail("M-threads", "thread list not empty after all threads exited");
        }
        if !rt.state().in_running() {
            verif_rt::monitor::fail("M-stw", "runtime state not Running at the end");
        }
        for t in 1..n {
            if reachable[t] && !w.finished[t].load(Ordering::Relaxed) {
                verif_rt::monitor::fail("M-threads", &format!("thread {} did not finish", t));
            }
        }
        dora_runtime::clear_runtime();
        RT_SET.store(false, Ordering::Relaxed);
        // SAFETY: no thread references the runtime any more (all joined, list empty)
        unsafe {
            drop(Box::from_raw(rt as *const Runtime as *mut Runtime));
        }
    }
}

fn main() {
    main_for::<StwScenario>();
}
