//! C12 / Tier A: the real `Terminator` (dora-runtime/src/gc/swiper/terminator.rs, compiled
//! from /repo with shim mutex/condvar/atomics) driven by 2-4 workers running the loop of
//! `MarkingTask::run` / `CopyTask::trace_gray_objects` against an abstract work pool.
//!
//! Real: Terminator::{new,try_terminate,wake_up}. Stub: the pool (private segment per
//! worker, stealable deque per worker, shared injector) with the visibility guarantees of
//! the real pools; every shared pool operation is one indivisible step behind a shim mutex.

use dora_runtime::verif::Terminator;
use harness::{main_for, Scenario, Stats};
use parking_lot::Mutex;
use serde::{Deserialize, Serialize};
use std::collections::VecDeque;
use std::sync::atomic::{AtomicUsize, Ordering};
use std::sync::Arc;
use verif_rt::prng::Prng;

#[derive(Serialize, Deserialize, Clone, Copy, Debug, PartialEq)]
enum Publish {
    /// keep in the private segment (no wake-up; only the owner can see it)
    Private,
    /// push on the own stealable deque, then `wake_up` (MarkingTask::trace, full segment)
    Deque,
    /// push to private segment, then move half of it to the injector, then `wake_up`
    /// (MarkingTask::defensive_push)
    Share,
}

#[derive(Serialize, Deserialize, Clone, Debug)]
struct Item {
    children: Vec<(usize, Publish)>,
}

#[derive(Serialize, Deserialize, Clone, Debug)]
struct TermScenario {
    workers: usize,
    items: Vec<Item>,
    /// roots: (item, initial location: usize::MAX = injector, else worker deque index)
    roots: Vec<(usize, usize)>,
    /// a steal attempt fails spuriously with probability spurious/256
    spurious: u32,
}

struct Shared {
    deques: Vec<VecDeque<usize>>,
    injector: VecDeque<usize>,
}

const P_RESUMED: usize = 0;
const P_STOLEN: usize = 1;
const P_INJECTOR_BATCH: usize = 2;
const P_TERMINATED: usize = 3;

const F_SPURIOUS_STEAL: usize = 0;

impl Scenario for TermScenario {
    const PROPERTY: &'static str = "C12";
    const HARNESS: &'static str = "term";

    fn generate(rng: &mut Prng) -> Self {
        let workers = rng.range(2, 4) as usize;
        let n = rng.range(1, 24) as usize;
        let shape = rng.below(5);
        let mut items: Vec<Item> = (0..n).map(|_| Item { children: vec![] }).collect();
        let mut roots = Vec::new();
        let mut is_child = vec![false; n];
        let pubmode = |rng: &mut Prng| match rng.below(4) {
            0 => Publish::Private,
            1 | 2 => Publish::Deque,
            _ => Publish::Share,
        };
        match shape {
            0 => {} // all roots up front
            1 => {
                // single chain
                for i in 1..n {
                    let m = pubmode(rng);
                    items[i - 1].children.push((i, m));
                    is_child[i] = true;
                }
            }
            2 => {
                // wide: item 0 publishes everything
                for i in 1..n {
                    let m = pubmode(rng);
                    if items[0].children.len() < 3 || rng.chance(1, 2) {
                        items[0].children.push((i, m));
                        is_child[i] = true;
                    }
                }
            }
            _ => {
                // random forest, up to 3 children each
                for i in 1..n {
                    if rng.chance(3, 4) {
                        let p = rng.below(i as u64) as usize;
                        if items[p].children.len() < 3 {
                            let m = pubmode(rng);
                            items[p].children.push((i, m));
                            is_child[i] = true;
                        }
                    }
                }
            }
        }
        for i in 0..n {
            if !is_child[i] {
                let loc = if rng.chance(2, 3) { usize::MAX } else { rng.below(workers as u64) as usize };
                roots.push((i, loc));
            }
        }
        TermScenario { workers, items, roots, spurious: *rng.pick(&[0u32, 0, 32, 128]) }
    }

    fn max_tasks(&self) -> u32 {
        self.workers as u32 + 1
    }

    fn probe_names() -> &'static [&'static str] {
        &["worker_resumed_after_wake", "items_stolen", "injector_batches", "workers_terminated"]
    }

    fn fault_names() -> &'static [&'static str] {
        &["spurious_steal_failure"]
    }

    fn size(&self) -> usize {
        self.items.len() * 4 + self.workers + self.items.iter().map(|i| i.children.len()).sum::<usize>() + (self.spurious > 0) as usize
    }

    fn est_steps(&self) -> u32 {
        (20 + 10 * self.items.len() + 10 * self.workers) as u32
    }

    fn shrink_candidates(&self) -> Vec<Self> {
        let mut out = Vec::new();
        // drop the last item (and references to it)
        if self.items.len() > 1 {
            let last = self.items.len() - 1;
            let mut c = self.clone();
            c.items.pop();
            for it in c.items.iter_mut() {
                it.children.retain(|(ch, _)| *ch != last);
            }
            c.roots.retain(|(r, _)| *r != last);
            out.push(c);
        }
        // turn a child edge into a root (flatten)
        for (i, it) in self.items.iter().enumerate() {
            for (k, (ch, _)) in it.children.iter().enumerate() {
                let mut c = self.clone();
                c.items[i].children.remove(k);
                c.roots.push((*ch, usize::MAX));
                // a flattened scenario is "smaller" by edge count
                out.push(c);
            }
        }
        if self.workers > 2 {
            let mut c = self.clone();
            c.workers -= 1;
            for r in c.roots.iter_mut() {
                if r.1 != usize::MAX && r.1 >= c.workers {
                    r.1 = usize::MAX;
                }
            }
            out.push(c);
        }
        if self.spurious > 0 {
            let mut c = self.clone();
            c.spurious = 0;
            out.push(c);
        }
        out
    }

    fn run(&self, stats: &Stats) {
        let n = self.items.len();
        let workers = self.workers;
        let terminator = Arc::new(Terminator::new(workers));
        let shared = Arc::new(Mutex::new(Shared { deques: vec![VecDeque::new(); workers], injector: VecDeque::new() }));
        let outstanding = Arc::new(AtomicUsize::new(0));
        let processed: Arc<Vec<AtomicUsize>> = Arc::new((0..n).map(|_| AtomicUsize::new(0)).collect());
        let finished = Arc::new(AtomicUsize::new(0));
        {
            let mut s = shared.lock();
            for &(item, loc) in &self.roots {
                outstanding.fetch_add(1, Ordering::Relaxed);
                if loc == usize::MAX {
                    s.injector.push_back(item);
                } else {
                    s.deques[loc].push_back(item);
                }
            }
        }
        let scenario = Arc::new(self.clone());
        // SAFETY of the raw pointer: `stats` outlives the execution (owned by main).
        let stats_ptr = stats as *const Stats as usize;
        let mut handles = Vec::new();
        for w in 0..workers {
            let terminator = terminator.clone();
            let shared = shared.clone();
            let outstanding = outstanding.clone();
            let processed = processed.clone();
            let finished = finished.clone();
            let sc = scenario.clone();
            handles.push(shuttle::thread::spawn(move || {
                let stats: &Stats = unsafe { &*(stats_ptr as *const Stats) };
                let mut local: Vec<usize> = Vec::new();
                loop {
                    // pop(): private segment, own deque, injector (batch), steal
                    let item = if let Some(i) = local.pop() {
                        Some(i)
                    } else {
                        let mut got = None;
                        {
                            let mut s = shared.lock();
                            if let Some(i) = s.deques[w].pop_back() {
                                got = Some(i);
                            }
                        }
                        if got.is_none() {
                            let mut s = shared.lock();
                            if !s.injector.is_empty() {
                                // steal_batch_and_pop: move up to half (at least 1) to own deque
                                let take = (s.injector.len() + 1) / 2;
                                for _ in 0..take {
                                    let v = s.injector.pop_front().unwrap();
                                    s.deques[w].push_back(v);
                                }
                                got = s.deques[w].pop_back();
                                stats.probe(P_INJECTOR_BATCH);
                            }
                        }
                        if got.is_none() && workers > 1 {
                            // MarkingTask::steal: 2*len attempts at random victims
                            for _ in 0..2 * workers {
                                let mut v = w;
                                while v == w {
                                    v = (verif_rt::data_u64() % workers as u64) as usize;
                                }
                                if sc.spurious > 0 && (verif_rt::data_u64() % 256) < sc.spurious as u64 {
                                    stats.fault(F_SPURIOUS_STEAL);
                                    continue;
                                }
                                let mut s = shared.lock();
                                if let Some(i) = s.deques[v].pop_front() {
                                    got = Some(i);
                                    stats.probe(P_STOLEN);
                                    break;
                                }
                            }
                        }
                        got
                    };

                    let item = match item {
                        Some(i) => i,
                        None => {
                            if terminator.try_terminate() {
                                // M-term: nobody may leave while work remains anywhere
                                let left = outstanding.load(Ordering::Relaxed);
                                if left != 0 {
                                    verif_rt::monitor::fail(
                                        "M-term",
                                        &format!("worker {} completed termination while {} work items were still outstanding", w, left),
                                    );
                                }
                                stats.probe(P_TERMINATED);
                                break;
                            } else {
                                stats.probe(P_RESUMED);
                                continue;
                            }
                        }
                    };

                    // process: exactly once
                    let before = processed[item].fetch_add(1, Ordering::Relaxed);
                    if before != 0 {
                        verif_rt::monitor::fail("M-once", &format!("item {} processed twice", item));
                    }
                    for &(child, mode) in &sc.items[item].children {
                        outstanding.fetch_add(1, Ordering::Relaxed);
                        match mode {
                            Publish::Private => local.push(child),
                            Publish::Deque => {
                                shared.lock().deques[w].push_back(child);
                                terminator.wake_up();
                            }
                            Publish::Share => {
                                local.push(child);
                                let target = local.len() / 2;
                                {
                                    let mut s = shared.lock();
                                    while local.len() > target {
                                        s.injector.push_back(local.pop().unwrap());
                                    }
                                }
                                terminator.wake_up();
                            }
                        }
                    }
                    outstanding.fetch_sub(1, Ordering::Relaxed);
                }
                finished.fetch_add(1, Ordering::Relaxed);
            }));
        }
        for h in handles {
            h.join().unwrap();
        }
        assert_eq!(finished.load(Ordering::Relaxed), workers);
        for (i, p) in processed.iter().enumerate() {
            let c = p.load(Ordering::Relaxed);
            if c != 1 {
                verif_rt::monitor::fail("M-once", &format!("item {} processed {} times", i, c));
            }
        }
        let s = shared.lock();
        assert!(s.injector.is_empty() && s.deques.iter().all(|d| d.is_empty()));
    }
}

fn main() {
    main_for::<TermScenario>();
}
