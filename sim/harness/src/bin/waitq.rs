//! C09 / Tier A: the real wait table (`WaitLists`, `ObjectHashMap`) and the real blocking
//! primitives of `DoraThread` (`block`, `prepare_for_waitlist`, `remove_from_waitlist`,
//! `join`, `stop`) under the seeded scheduler, driven by a Rust transliteration of the
//! lock-word protocol of pkgs/std/thread.dora (stub, kept textually parallel to it) in which
//! EVERY atomic operation on the lock word is a scheduling point - something the
//! whole-executable simulator cannot do inside compiled code.
//!
//! `relocate@stw`: inside a real `stop_the_world` the fabricated mutex/condition objects are
//! moved to fresh memory, every handle slot and every wait-table key is updated through the
//! table's own `visit_roots`, and the GC epoch is bumped - what a moving collection does.

use dora_runtime::verif::*;
use harness::{main_for, Scenario, Stats};
use serde::{Deserialize, Serialize};
use std::sync::atomic::{AtomicBool, AtomicI64, AtomicUsize, Ordering};
use std::sync::{Arc, Mutex as StdMutex};
use verif_rt::atomic::AtomicI32;
use verif_rt::prng::Prng;

const UNLOCKED: i32 = 0;
const LOCKED: i32 = 1;
const LOCKED_CONTENDED: i32 = 2;

#[derive(Serialize, Deserialize, Clone, Debug, PartialEq)]
enum Op {
    /// lock mutex m, do a non-atomic read-modify-write of its counter with k scheduling
    /// points inside, unlock
    Section(usize, u8),
    /// lock m; while !flag[c] { cond[c].wait(m) }; unlock
    Wait(usize, usize),
    /// lock m; flag[c] = true; unlock; notify (all = true) on cond c
    Signal(usize, usize, bool),
    /// notify a condition nobody waits on
    Lonely(bool),
    /// block (parked, on a harness condition variable) until at least k threads are queued
    /// in condition waits
    AwaitQueued(usize),
    /// notify (all = true) the condition object of flag c WITHOUT setting the flag: legal at
    /// any time, waiters re-check their flag and wait again
    Poke(usize, bool),
    /// moving collection: relocate all objects inside a real stop_the_world
    Relocate,
    /// safepoint poll
    Poll,
    /// spawn thread t
    Spawn(usize),
    /// join thread t
    Join(usize),
}

#[derive(Serialize, Deserialize, Clone, Debug)]
struct WaitqScenario {
    nmutex: usize,
    ncond: usize,
    /// threads[0] is the main thread
    threads: Vec<Vec<Op>>,
    /// flag -> condition object; empty = identity. Several flags may share one condition
    /// object (their signals then use notify_all), so that a condition is waited on and
    /// notified again after earlier notifications
    #[serde(default)]
    cond_map: Vec<usize>,
}

impl WaitqScenario {
    fn cond_obj(&self, c: usize) -> usize {
        self.cond_map.get(c).copied().unwrap_or(c)
    }
}

const P_BLOCKED_ON_MUTEX: usize = 0;
const P_COND_WAITS: usize = 1;
const P_RELOCATIONS: usize = 2;
const P_RELOCATE_WITH_WAITERS: usize = 3;
const P_NOTIFY_SLOW: usize = 4;
const P_SECTIONS: usize = 5;
const P_UNLOCK_SLOW: usize = 6;

/// object layout: [header word][i32 state][pad] [i64 owner] = 24 bytes, 8-aligned
const OBJ_WORDS: usize = 3;

struct World {
    rt: &'static Runtime,
    /// handle slots: slot i holds the current address of object i (mutexes first, then
    /// conditions, then the lonely condition); updated by relocation
    slots: Vec<AtomicUsize>,
    /// chunks of harness memory that hold the fabricated objects (objects are 8-byte aligned
    /// like real heap objects, so that bucket positions depend on address bits 3 and up)
    arena: StdMutex<Vec<Box<[u64]>>>,
    relocations: AtomicUsize,
    counters: Vec<AtomicI64>,
    inside: Vec<AtomicBool>,
    flags: Vec<AtomicBool>,
    waiting_now: AtomicUsize,
    queued_mtx: shuttle::sync::Mutex<()>,
    queued_cv: shuttle::sync::Condvar,
    spawned: Vec<StdMutex<Option<Arc<DoraThread>>>>,
    finished: Vec<AtomicBool>,
    scenario: WaitqScenario,
    stats: usize,
}

impl World {
    fn stats(&self) -> &Stats {
        unsafe { &*(self.stats as *const Stats) }
    }
    fn obj(&self, i: usize) -> usize {
        self.slots[i].load(Ordering::Relaxed)
    }
    fn word(&self, i: usize) -> &AtomicI32 {
        // re-read the slot at every access: a relocation may have moved the object
        unsafe { &*((self.obj(i) + 8) as *const AtomicI32) }
    }
    fn owner(&self, i: usize) -> &AtomicI64 {
        unsafe { &*((self.obj(i) + 16) as *const AtomicI64) }
    }
}

// The natives of pkgs/std/thread.dora are called the way compiled code calls them: through
// their C ABI with the raw handle (a pointer to the slot). Going through function pointers
// keeps the harness independent of the handle's type parameter in the native's signature.
fn raw(h: &AtomicUsize) -> usize {
    h as *const AtomicUsize as usize
}
fn native1(f: *const (), handle: usize) {
    let f: extern "C" fn(usize) = unsafe { std::mem::transmute(f) };
    f(handle)
}
fn native2(f: *const (), handle: usize, value: i32) {
    let f: extern "C" fn(usize, i32) = unsafe { std::mem::transmute(f) };
    f(handle, value)
}

fn poll() {
    let thread = current_thread();
    if thread.tld.state.load(Ordering::Relaxed) != ThreadState::Running as u8 {
        safepoint_slow();
    }
}

// ---- transliteration of pkgs/std/thread.dora -------------------------------------------

fn lock_op(w: &World, m: usize, tid: i64) {
    let previous = match w.word(m).compare_exchange(UNLOCKED, LOCKED, Ordering::SeqCst, Ordering::SeqCst) {
        Ok(v) | Err(v) => v,
    };
    if previous != UNLOCKED {
        assert!(previous == LOCKED || previous == LOCKED_CONTENDED);
        lock_slow(w, m);
    }
    assert_eq!(w.owner(m).load(Ordering::Relaxed), 0, "mutex acquired while owned");
    w.owner(m).store(tid, Ordering::Relaxed);
}

fn lock_slow(w: &World, m: usize) {
    let mut locked = false;
    while !locked {
        poll(); // loop back-edge
        if transition_to_locked_contended(w, m) {
            w.stats().probe(P_BLOCKED_ON_MUTEX);
            // @native Mutex#wait
            native2(dora_runtime::verif::mutex_wait as *const (), raw(&w.slots[m]), LOCKED_CONTENDED);
        }
        let previous = match w.word(m).compare_exchange(UNLOCKED, LOCKED_CONTENDED, Ordering::SeqCst, Ordering::SeqCst) {
            Ok(v) | Err(v) => v,
        };
        locked = previous == UNLOCKED;
    }
}

fn transition_to_locked_contended(w: &World, m: usize) -> bool {
    let r = match w.word(m).compare_exchange(LOCKED, LOCKED_CONTENDED, Ordering::SeqCst, Ordering::SeqCst) {
        Ok(v) | Err(v) => v,
    };
    r != UNLOCKED
}

fn unlock_op(w: &World, m: usize, tid: i64) {
    assert_eq!(w.owner(m).load(Ordering::Relaxed), tid, "unlock by a thread that does not own the mutex");
    w.owner(m).store(0, Ordering::Relaxed);
    let previous = w.word(m).swap(UNLOCKED, Ordering::SeqCst);
    if previous != LOCKED {
        assert_eq!(previous, LOCKED_CONTENDED);
        w.stats().probe(P_UNLOCK_SLOW);
        // @native Mutex#notify
        native1(dora_runtime::verif::mutex_notify as *const (), raw(&w.slots[m]));
    }
}

fn cond_wait(w: &World, c: usize, m: usize, tid: i64) {
    // enqueue(); mtx.unlock_op(); block(); mtx.lock_op();
    native1(dora_runtime::verif::condition_enqueue as *const (), raw(&w.slots[c]));
    unlock_op(w, m, tid);
    w.waiting_now.fetch_add(1, Ordering::Relaxed);
    {
        let _g = w.queued_mtx.lock().unwrap();
        w.queued_cv.notify_all();
    }
    native1(dora_runtime::verif::condition_block_after_enqueue as *const (), raw(&w.slots[c]));
    w.waiting_now.fetch_sub(1, Ordering::Relaxed);
    lock_op(w, m, tid);
}

fn notify_one(w: &World, c: usize) {
    if w.word(c).load(Ordering::SeqCst) == 0 {
        return;
    }
    w.stats().probe(P_NOTIFY_SLOW);
    native1(dora_runtime::verif::condition_wakeup_one as *const (), raw(&w.slots[c]));
}

fn notify_all(w: &World, c: usize) {
    if w.word(c).load(Ordering::SeqCst) == 0 {
        return;
    }
    w.word(c).store(0, Ordering::SeqCst);
    w.stats().probe(P_NOTIFY_SLOW);
    native1(dora_runtime::verif::condition_wakeup_all as *const (), raw(&w.slots[c]));
}

// ---- the moving collection -------------------------------------------------------------

fn relocate(w: &Arc<World>) {
    let w2 = w.clone();
    stop_the_world(w.rt, |_threads| {
        w2.stats().probe(P_RELOCATIONS);
        if w2.waiting_now.load(Ordering::Relaxed) > 0 {
            w2.stats().probe(P_RELOCATE_WITH_WAITERS);
        }
        let mut arena = w2.arena.lock().unwrap();
        let n = w2.slots.len();
        let round = w2.relocations.fetch_add(1, Ordering::Relaxed) + 1;
        // fresh chunk; objects are packed with a round-dependent shift and order
        let mut chunk: Box<[u64]> = vec![0u64; n * OBJ_WORDS + 8].into_boxed_slice();
        let base = chunk.as_mut_ptr() as usize + 8 * (round % 5);
        let mut moved: Vec<(usize, usize)> = Vec::new();
        for i in 0..n {
            let old = w2.slots[i].load(Ordering::Relaxed);
            let pos = (i * 5 + round) % n; // a permutation for n not divisible by 5; collisions avoided below
            let _ = pos;
            let newaddr = base + ((i + round) % n) * OBJ_WORDS * 8;
            unsafe {
                std::ptr::copy_nonoverlapping(old as *const u64, newaddr as *mut u64, OBJ_WORDS);
                // poison the old copy: any stale access shows up as a protocol failure
                std::ptr::write_bytes(old as *mut u8, 0xAB, OBJ_WORDS * 8);
            }
            w2.slots[i].store(newaddr, Ordering::Relaxed);
            moved.push((old, newaddr));
        }
        arena.push(chunk);
        // update the keys of the wait table exactly like the collectors do
        w2.rt.wait_lists.visit_roots(|slot: Slot| {
            let cur = slot.get().to_usize();
            if let Some((_, new)) = moved.iter().find(|(old, _)| *old == cur) {
                slot.relocate(Address::from(*new));
            } else {
                verif_rt::monitor::fail("M-waitq", "wait table holds a key that is not a live object");
            }
        });
        w2.rt.gc.verif_bump_epoch();
    });
}

fn run_ops(w: &Arc<World>, me: usize) {
    let tid = me as i64 + 1;
    let ops = w.scenario.threads[me].clone();
    let nm = w.scenario.nmutex;
    for op in ops {
        poll();
        match op {
            Op::Section(m, k) => {
                w.stats().probe(P_SECTIONS);
                lock_op(w, m, tid);
                if w.inside[m].swap(true, Ordering::Relaxed) {
                    verif_rt::monitor::fail("M-mutex", &format!("two threads inside the critical section of mutex {}", m));
                }
                let old = w.counters[m].load(Ordering::Relaxed);
                for _ in 0..k {
                    verif_rt::sched_point();
                }
                w.counters[m].store(old + 1, Ordering::Relaxed);
                if !w.inside[m].swap(false, Ordering::Relaxed) {
                    verif_rt::monitor::fail("M-mutex", "critical section flag cleared by somebody else");
                }
                unlock_op(w, m, tid);
            }
            Op::Wait(c, m) => {
                w.stats().probe(P_COND_WAITS);
                lock_op(w, m, tid);
                while !w.flags[c].load(Ordering::Relaxed) {
                    poll();
                    cond_wait(w, nm + w.scenario.cond_obj(c), m, tid);
                }
                unlock_op(w, m, tid);
            }
            Op::Signal(c, m, all) => {
                lock_op(w, m, tid);
                w.flags[c].store(true, Ordering::Relaxed);
                unlock_op(w, m, tid);
                if all {
                    notify_all(w, nm + w.scenario.cond_obj(c));
                } else {
                    notify_one(w, nm + w.scenario.cond_obj(c));
                }
            }
            Op::Poke(c, all) => {
                if all {
                    notify_all(w, nm + w.scenario.cond_obj(c));
                } else {
                    notify_one(w, nm + w.scenario.cond_obj(c));
                }
            }
            Op::AwaitQueued(k) => {
                parked_scope(|| {
                    let mut g = w.queued_mtx.lock().unwrap();
                    while w.waiting_now.load(Ordering::Relaxed) < k {
                        g = w.queued_cv.wait(g).unwrap();
                    }
                });
            }
            Op::Lonely(all) => {
                let lonely = nm + w.scenario.ncond;
                if all {
                    notify_all(w, lonely);
                } else {
                    notify_one(w, lonely);
                }
            }
            Op::Relocate => relocate(w),
            Op::Poll => poll(),
            Op::Spawn(t) => {
                let thread = DoraThread::new(w.rt, ThreadState::Parked);
                w.rt.threads.add_thread(thread.clone());
                *w.spawned[t].lock().unwrap() = Some(thread.clone());
                let w2 = w.clone();
                shuttle::thread::spawn(move || {
                    let thread = init_current_thread(thread);
                    thread.unpark(w2.rt);
                    run_ops(&w2, t);
                    w2.finished[t].store(true, Ordering::Relaxed);
                    w2.rt.threads.remove_current_thread();
                    thread.stop();
                    deinit_current_thread();
                });
            }
            Op::Join(t) => {
                let th = w.spawned[t].lock().unwrap().clone().expect("join before spawn");
                th.join();
                if !w.finished[t].load(Ordering::Relaxed) {
                    verif_rt::monitor::fail("M-join", &format!("join of thread {} returned before it finished", t));
                }
            }
        }
    }
}

static RT_SET: AtomicBool = AtomicBool::new(false);

fn empty_program() -> dora_bytecode::Program {
    dora_bytecode::Program {
        packages: Vec::new(),
        modules: Vec::new(),
        functions: Vec::new(),
        function_intrinsics: Vec::new(),
        globals: Vec::new(),
        consts: Vec::new(),
        classes: Vec::new(),
        structs: Vec::new(),
        enums: Vec::new(),
        traits: Vec::new(),
        impls: Vec::new(),
        extensions: Vec::new(),
        aliases: Vec::new(),
        source_files: Vec::new(),
        stdlib_package_id: dora_bytecode::PackageId::from(0usize),
        program_package_id: dora_bytecode::PackageId::from(0usize),
        main_fct_id: None,
    }
}

impl Scenario for WaitqScenario {
    const PROPERTY: &'static str = "C09";
    const HARNESS: &'static str = "waitq";

    fn generate(rng: &mut Prng) -> Self {
        if rng.chance(1, 12) {
            // many conditions queued at once, some woken, more queued, then notifications for
            // conditions that have no waiter any more - and no collection in between: entries
            // are deleted from and inserted into the wait table without a rehash
            let n1 = rng.range(10, 12) as usize;
            let nmutex = rng.range(1, 2) as usize;
            let mut threads: Vec<Vec<Op>> = vec![Vec::new(); 1];
            let mut next_c = 0usize;
            let mut live: Vec<(usize, usize)> = Vec::new(); // (flag, mutex)
            let mut done: Vec<usize> = Vec::new();
            let spawn_waiter = |threads: &mut Vec<Vec<Op>>, live: &mut Vec<(usize, usize)>, next_c: &mut usize, rng: &mut Prng| {
                let t = threads.len();
                let m = rng.below(nmutex as u64) as usize;
                threads.push(vec![Op::Wait(*next_c, m)]);
                threads[0].push(Op::Spawn(t));
                live.push((*next_c, m));
                *next_c += 1;
            };
            for _ in 0..n1 {
                spawn_waiter(&mut threads, &mut live, &mut next_c, rng);
            }
            threads[0].push(Op::AwaitQueued(live.len()));
            for _round in 0..rng.range(1, 3) {
                // wake some
                let k = rng.range(2, 6) as usize;
                for _ in 0..k.min(live.len()) {
                    let i = rng.below(live.len() as u64) as usize;
                    let (c, m) = live.remove(i);
                    threads[0].push(Op::Signal(c, m, rng.chance(1, 3)));
                    done.push(c);
                }
                // queue as many new ones as fit below the growth threshold of the table
                while live.len() < n1 {
                    spawn_waiter(&mut threads, &mut live, &mut next_c, rng);
                }
                threads[0].push(Op::AwaitQueued(live.len()));
                // notifications for conditions whose waiter is gone
                for _ in 0..rng.range(1, 3) {
                    let c = done[rng.below(done.len() as u64) as usize];
                    threads[0].push(Op::Poke(c, rng.chance(1, 4)));
                }
            }
            for (c, m) in live.drain(..) {
                threads[0].push(Op::Signal(c, m, rng.chance(1, 2)));
            }
            return WaitqScenario { nmutex, ncond: next_c, threads, cond_map: Vec::new() };
        }
        if rng.chance(1, 8) {
            // "wide" family: 7-9 objects keyed in the wait table at once (the table grows past
            // its minimum capacity, so bucket positions depend on more address bits), a moving
            // collection while the waiters are queued, then one notification per condition
            let nw = rng.range(6, 8) as usize;
            let nmutex = rng.range(1, 2) as usize;
            let mut threads: Vec<Vec<Op>> = vec![Vec::new(); nw + 1];
            for t in 1..=nw {
                threads[0].push(Op::Spawn(t));
                if rng.chance(1, 3) {
                    threads[t].push(Op::Section(rng.below(nmutex as u64) as usize, 1));
                }
                threads[t].push(Op::Wait(t - 1, rng.below(nmutex as u64) as usize));
            }
            for _ in 0..rng.range(1, 3) {
                threads[0].push(if rng.chance(2, 3) { Op::Relocate } else { Op::Poll });
            }
            let mut order: Vec<usize> = (0..nw).collect();
            for i in (1..nw).rev() {
                let j = rng.below(i as u64 + 1) as usize;
                order.swap(i, j);
            }
            for c in order {
                // find the mutex the waiter of c uses
                let m = threads[c + 1].iter().find_map(|o| if let Op::Wait(_, m) = o { Some(*m) } else { None }).unwrap();
                threads[0].push(Op::Signal(c, m, rng.chance(2, 3)));
                if rng.chance(1, 4) {
                    threads[0].push(Op::Relocate);
                }
            }
            return WaitqScenario { nmutex, ncond: nw, threads, cond_map: Vec::new() };
        }
        let nthreads = rng.range(2, 4) as usize;
        let nmutex = rng.range(1, 3) as usize;
        // a third of the scenarios: 2-4 flags share 1-2 condition objects
        let shared = rng.chance(1, 3);
        let ncond = if shared { rng.range(2, 4) as usize } else { rng.range(0, 2) as usize };
        let cond_map: Vec<usize> = if shared {
            let k = rng.range(1, 2);
            (0..ncond).map(|_| rng.below(k) as usize).collect()
        } else {
            Vec::new()
        };
        let mut threads: Vec<Vec<Op>> = vec![Vec::new(); nthreads];
        let heavy_reloc = rng.chance(1, 3);
        for t in 0..nthreads {
            let len = rng.range(1, 6) as usize;
            for _ in 0..len {
                let r = rng.below(100);
                let op = if r < 55 {
                    Op::Section(rng.below(nmutex as u64) as usize, rng.below(3) as u8)
                } else if r < (if heavy_reloc { 80 } else { 65 }) {
                    Op::Relocate
                } else if r < 85 {
                    Op::Lonely(rng.chance(1, 2))
                } else {
                    Op::Poll
                };
                threads[t].push(op);
            }
        }
        // waits and their signals: every flag is set exactly once, by a thread that does not
        // wait on it itself before signalling; waiters on the same flag share its mutex
        for c in 0..ncond {
            let m = rng.below(nmutex as u64) as usize;
            let signaller = rng.below(nthreads as u64) as usize;
            let mut waiters: Vec<usize> = (0..nthreads).filter(|t| *t != signaller && rng.chance(1, 2)).collect();
            if waiters.is_empty() {
                waiters.push((signaller + 1) % nthreads);
            }
            // waiters of different flags may sit on a shared condition object: only
            // notify_all is guaranteed to reach the right one there
            let all = shared || waiters.len() > 1 || rng.chance(1, 2);
            for &wt in &waiters {
                let pos = rng.below(threads[wt].len() as u64 + 1) as usize;
                threads[wt].insert(pos, Op::Wait(c, m));
            }
            let pos = rng.below(threads[signaller].len() as u64 + 1) as usize;
            threads[signaller].insert(pos, Op::Signal(c, m, all));
        }
        // extra notifications that set no flag
        if ncond > 0 {
            for _ in 0..rng.range(0, 3) {
                let t = rng.below(nthreads as u64) as usize;
                let pos = rng.below(threads[t].len() as u64 + 1) as usize;
                threads[t].insert(pos, Op::Poke(rng.below(ncond as u64) as usize, rng.chance(1, 2)));
            }
        }
        // A signaller must not be blocked (transitively) behind a wait that depends on it:
        // keep the dependency graph acyclic by ordering flags - a thread waits on flag c only
        // before it signals any flag d <= c ... simplest sound rule: in every thread, all
        // Signal ops come before all Wait ops.
        for t in 0..nthreads {
            let (sig, rest): (Vec<Op>, Vec<Op>) = threads[t].iter().cloned().partition(|o| matches!(o, Op::Signal(..)));
            let mut v = sig;
            v.extend(rest);
            threads[t] = v;
        }
        // spawns (+ optional joins) go to the front of the parent so that children exist
        // before anybody waits for them
        for t in (1..nthreads).rev() {
            let parent = rng.below(t as u64) as usize;
            threads[parent].insert(0, Op::Spawn(t));
            if rng.chance(1, 2) {
                threads[parent].push(Op::Join(t));
            }
        }
        WaitqScenario { nmutex, ncond, threads, cond_map }
    }

    fn max_tasks(&self) -> u32 {
        self.threads.len() as u32
    }

    fn probe_names() -> &'static [&'static str] {
        &["blocked_on_contended_mutex", "condition_waits", "relocations", "relocation_while_threads_are_queued", "notify_reached_wait_table", "critical_sections", "unlock_slow_path"]
    }

    fn fault_names() -> &'static [&'static str] {
        &[]
    }

    fn size(&self) -> usize {
        self.threads.iter().map(|t| t.len() + 1).sum::<usize>()
            + self.threads.iter().flatten().map(|o| if let Op::Section(_, k) = o { *k as usize } else { 0 }).sum::<usize>()
    }

    fn est_steps(&self) -> u32 {
        (40 * self.threads.iter().map(|t| t.len()).sum::<usize>()) as u32 + 60
    }

    fn shrink_candidates(&self) -> Vec<Self> {
        let mut out = Vec::new();
        for t in 0..self.threads.len() {
            for i in 0..self.threads[t].len() {
                match &self.threads[t][i] {
                    // waits, signals, spawns are structural: removing one alone can create a
                    // deadlock by construction, so they are only removed together
                    Op::Wait(..) | Op::Signal(..) | Op::Spawn(_) => {}
                    Op::Join(_) => {
                        let mut s = self.clone();
                        s.threads[t].remove(i);
                        out.push(s);
                    }
                    Op::Section(m, k) if *k > 0 => {
                        let mut s = self.clone();
                        s.threads[t][i] = Op::Section(*m, 0);
                        out.push(s);
                        let mut s = self.clone();
                        s.threads[t].remove(i);
                        out.push(s);
                    }
                    _ => {
                        let mut s = self.clone();
                        s.threads[t].remove(i);
                        out.push(s);
                    }
                }
            }
        }
        // remove a whole condition (all its waits and its signal)
        for c in 0..self.ncond {
            let mut s = self.clone();
            for t in s.threads.iter_mut() {
                t.retain(|o| !matches!(o, Op::Wait(cc, _) | Op::Signal(cc, _, _) if *cc == c));
            }
            out.push(s);
        }
        out
    }

    fn stack_size() -> usize {
        0x20000
    }

    fn max_steps() -> usize {
        60_000
    }

    fn run(&self, stats: &Stats) {
        let flags = RuntimeFlags {
            gc_stress: false,
            gc_stress_minor: false,
            gc_stats: false,
            gc_verbose: false,
            gc_verify: false,
            gc_worker: 1,
            gc_young_size: None,
            gc: Some(dora_runtime::CollectorName::Zero),
            min_heap_size: None,
            max_heap_size: Some(dora_runtime::MemSize(1 << 20)),
            readonly_size: Some(dora_runtime::MemSize(1 << 16)),
            disable_tlab: false,
            snapshot_on_oom: None,
        };
        let mut rt = Runtime::new(empty_program(), flags, Vec::new());
        static SHAPE_SPACE: [u64; 64] = [0; 64];
        rt.set_shape_space(Address::from_ptr(SHAPE_SPACE.as_ptr()), 512);
        let rt: &'static Runtime = Box::leak(rt);
        if RT_SET.swap(true, Ordering::Relaxed) {
            dora_runtime::clear_runtime();
        }
        dora_runtime::set_runtime(rt);

        let n = self.threads.len();
        let nobj = self.nmutex + self.ncond + 1;
        let mut arena: Vec<Box<[u64]>> = Vec::new();
        let mut slots = Vec::new();
        let mut chunk: Box<[u64]> = vec![0u64; nobj * OBJ_WORDS + 8].into_boxed_slice();
        let base = chunk.as_mut_ptr() as usize;
        for i in 0..nobj {
            // header word: any non-forwarding value; state 0; owner 0
            chunk[i * OBJ_WORDS] = 0xFFFF_FFFC_0000_0100u64;
            slots.push(AtomicUsize::new(base + i * OBJ_WORDS * 8));
        }
        arena.push(chunk);
        let w = Arc::new(World {
            rt,
            slots,
            arena: StdMutex::new(arena),
            relocations: AtomicUsize::new(0),
            counters: (0..self.nmutex).map(|_| AtomicI64::new(0)).collect(),
            inside: (0..self.nmutex).map(|_| AtomicBool::new(false)).collect(),
            flags: (0..self.ncond.max(1)).map(|_| AtomicBool::new(false)).collect(),
            waiting_now: AtomicUsize::new(0),
            queued_mtx: shuttle::sync::Mutex::new(()),
            queued_cv: shuttle::sync::Condvar::new(),
            spawned: (0..n).map(|_| StdMutex::new(None)).collect(),
            finished: (0..n).map(|_| AtomicBool::new(false)).collect(),
            scenario: self.clone(),
            stats: stats as *const Stats as usize,
        });

        let main = DoraThread::new(rt, ThreadState::Running);
        init_current_thread(main.clone());
        rt.threads.add_main_thread(main.clone());
        run_ops(&w, 0);
        rt.threads.remove_current_thread();
        deinit_current_thread();
        rt.threads.join_all();

        // post-conditions
        for m in 0..self.nmutex {
            let expected = self.threads.iter().flatten().filter(|o| matches!(o, Op::Section(mm, _) if *mm == m)).count() as i64;
            let got = w.counters[m].load(Ordering::Relaxed);
            if got != expected {
                verif_rt::monitor::fail("M-mutex", &format!("counter of mutex {} is {} after {} critical sections (lost update)", m, got, expected));
            }
            if w.word(m).peek() != UNLOCKED {
                verif_rt::monitor::fail("M-mutex", &format!("mutex {} left in state {}", m, w.word(m).peek()));
            }
        }
        let mut keys = 0;
        rt.wait_lists.visit_roots(|_| keys += 1);
        if keys != 0 {
            verif_rt::monitor::fail("M-waitq", &format!("{} keys left in the wait table after all threads finished", keys));
        }
        dora_runtime::clear_runtime();
        RT_SET.store(false, Ordering::Relaxed);
        unsafe {
            drop(Box::from_raw(rt as *const Runtime as *mut Runtime));
        }
    }
}

fn main() {
    main_for::<WaitqScenario>();
}
