//! Common driver for the Tier A protocol harnesses: generates scenarios from the seed,
//! runs each under the seeded scheduler, classifies violations, writes replay files and
//! prints one JSON line of statistics.

use serde::{de::DeserializeOwned, Deserialize, Serialize};
use std::collections::HashSet;
use std::panic::{catch_unwind, AssertUnwindSafe};
use std::sync::{Arc, Mutex};
use verif_rt::prng::{derive, Prng};
use verif_rt::sched::{self, ExecRecord, ExecSpec, Policy, SimScheduler};

pub trait Scenario: Serialize + DeserializeOwned + Clone + Send + Sync + 'static {
    const PROPERTY: &'static str;
    const HARNESS: &'static str;
    fn generate(rng: &mut Prng) -> Self;
    /// upper bound on the number of simulator tasks (for policy drawing)
    fn max_tasks(&self) -> u32;
    /// Body of the root task. Any panic is a violation.
    fn run(&self, stats: &Stats);
    /// Names of the per-scenario counters in `Stats::probes`.
    fn probe_names() -> &'static [&'static str];
    /// Names of the fault kinds counted in `Stats::faults`.
    fn fault_names() -> &'static [&'static str];
    /// Operations of the scenario as a flat list, for minimisation (drop one at a time).
    fn shrink_candidates(&self) -> Vec<Self>;
    fn size(&self) -> usize;
    /// estimate of the number of choice points of one execution (PCT change-point range);
    /// a function of the scenario only, so that policies do not depend on run history
    fn est_steps(&self) -> u32;
    fn stack_size() -> usize {
        0x10000
    }
    fn max_steps() -> usize {
        200_000
    }
}

#[derive(Default)]
pub struct Stats {
    pub probes: Vec<std::sync::atomic::AtomicU64>,
    pub faults: Vec<std::sync::atomic::AtomicU64>,
}

impl Stats {
    pub fn new(np: usize, nf: usize) -> Stats {
        Stats {
            probes: (0..np).map(|_| Default::default()).collect(),
            faults: (0..nf).map(|_| Default::default()).collect(),
        }
    }
    pub fn probe(&self, i: usize) {
        self.probes[i].fetch_add(1, std::sync::atomic::Ordering::Relaxed);
    }
    pub fn fault(&self, i: usize) {
        self.faults[i].fetch_add(1, std::sync::atomic::Ordering::Relaxed);
    }
}

#[derive(Serialize, Deserialize, Clone)]
pub struct Replay<S> {
    pub property: String,
    pub harness: String,
    pub verif_seed: u64,
    pub index: u64,
    pub exec_seed: u64,
    pub policy: String,
    pub scenario: S,
    /// recorded scheduling decisions (task id per step); followed while valid
    pub decisions: Option<Vec<u16>>,
    pub violation_class: String,
    pub violation: String,
    pub minimised: bool,
}

pub struct Outcome {
    pub violation: Option<(String, String)>, // (class, message)
    pub record: ExecRecord,
}

static LAST_PANIC: Mutex<Option<String>> = Mutex::new(None);
/// (path of the abort note, index of the execution in flight): written by the panic hook, so
/// that a panic that cannot unwind (inside an `extern "C"` runtime entry) still leaves a trace
static ABORT_NOTE: Mutex<(Option<String>, i64)> = Mutex::new((None, -1));
/// Number of executions started so far (watchdog: an execution that makes no scheduling
/// decision and never ends - an endless loop inside the real code - stops this counter).
static STARTED: std::sync::atomic::AtomicU64 = std::sync::atomic::AtomicU64::new(0);
/// Set while no execution is in flight (writing results): the watchdog stands down.
static IDLE: std::sync::atomic::AtomicBool = std::sync::atomic::AtomicBool::new(false);

/// A real OS thread outside the simulation: if no execution starts or ends for `secs` seconds
/// the process is inside one execution that does not come back to the scheduler. The abort
/// note (index in flight) is written and the process aborts; the orchestrator turns that into
/// a violation of class "abort" with the scenario of that index.
fn start_watchdog(secs: u64) {
    std::thread::spawn(move || {
        let mut last = STARTED.load(std::sync::atomic::Ordering::Relaxed);
        let mut since = std::time::Instant::now();
        loop {
            std::thread::sleep(std::time::Duration::from_millis(500));
            let now = STARTED.load(std::sync::atomic::Ordering::Relaxed);
            if IDLE.load(std::sync::atomic::Ordering::Relaxed) {
                since = std::time::Instant::now();
                continue;
            }
            if now != last {
                last = now;
                since = std::time::Instant::now();
            } else if now > 0 && since.elapsed().as_secs() >= secs {
                if let Ok(note) = ABORT_NOTE.try_lock() {
                    if let (Some(path), idx) = (&note.0, note.1) {
                        let _ = std::fs::write(path, format!("{}\nhang: the execution made no progress for {} s (an endless loop without a scheduling point inside the code under test)\n", idx, secs));
                    }
                }
                std::process::abort();
            }
        }
    });
}

pub fn install_panic_hook() {
    std::panic::set_hook(Box::new(|info| {
        let msg = if let Some(s) = info.payload().downcast_ref::<&str>() {
            s.to_string()
        } else if let Some(s) = info.payload().downcast_ref::<String>() {
            s.clone()
        } else {
            "panic".to_string()
        };
        let loc = info.location().map(|l| format!("{}:{}", l.file(), l.line())).unwrap_or_default();
        let mut g = LAST_PANIC.lock().unwrap();
        if g.is_none() {
            *g = Some(format!("{} @ {}", msg, loc));
            if let Ok(note) = ABORT_NOTE.try_lock() {
                if let (Some(path), idx) = (&note.0, note.1) {
                    let _ = std::fs::write(path, format!("{}\n{} @ {}\n", idx, msg.lines().next().unwrap_or(""), loc));
                }
            }
        }
    }));
}

pub fn classify(msg: &str) -> String {
    let first = msg.lines().next().unwrap_or("");
    if first.contains("deadlock") {
        "deadlock".into()
    } else if first.contains("exceeded max_steps") || first.contains("max_steps") {
        "step-budget".into()
    } else if let Some(i) = first.find("VERIF-MONITOR ") {
        let rest = &first[i + 14..];
        let name = rest.split(':').next().unwrap_or("monitor");
        format!("monitor:{}", name)
    } else {
        // assertion / panic: class is the source location so different asserts differ
        let loc = first.rsplit(" @ ").next().unwrap_or("");
        let loc = loc.rsplit('/').next().unwrap_or(loc);
        format!("panic:{}", loc)
    }
}

pub fn run_one<S: Scenario>(scenario: &S, spec: ExecSpec, stats: Arc<Stats>, keep_decisions: bool) -> Outcome {
    STARTED.fetch_add(1, std::sync::atomic::Ordering::Relaxed);
    let record = Arc::new(Mutex::new(ExecRecord::default()));
    let sched = SimScheduler::single(spec.clone(), record.clone(), keep_decisions);
    let runner = shuttle::Runner::new(sched, sched::config(S::stack_size(), Some(S::max_steps())));
    *LAST_PANIC.lock().unwrap() = None;
    verif_rt::seed_data(spec.seed);
    let sc = scenario.clone();
    let st = stats.clone();
    let res = catch_unwind(AssertUnwindSafe(move || {
        runner.run(move || {
            verif_rt::set_active(true);
            sc.run(&st);
            verif_rt::set_active(false);
        });
    }));
    verif_rt::set_active(false);
    verif_rt::monitor::stw_leave();
    let rec = record.lock().unwrap().clone();
    let violation = match res {
        Ok(()) => None,
        Err(_) => {
            let msg = LAST_PANIC.lock().unwrap().clone().unwrap_or_else(|| "panic".into());
            Some((classify(&msg), msg))
        }
    };
    Outcome { violation, record: rec }
}

fn arg(args: &[String], name: &str) -> Option<String> {
    args.iter().position(|a| a == name).and_then(|i| args.get(i + 1).cloned())
}

pub fn spec_for<S: Scenario>(seed: u64, index: u64, scenario: &S) -> ExecSpec {
    let mut cfg = Prng::stream(seed, "config", index);
    let policy = Policy::draw(&mut cfg, scenario.max_tasks(), scenario.est_steps());
    ExecSpec { seed: derive(seed, "exec", index), policy, replay: None }
}

/// Greedy minimisation: repeatedly try smaller scenarios, then fewer preemptions, keeping
/// the same violation class.
pub fn minimise<S: Scenario>(mut rep: Replay<S>, stats: Arc<Stats>) -> Replay<S> {
    let class = rep.violation_class.clone();
    let policy = Policy::parse(&rep.policy).unwrap_or(Policy::Random);
    let fails = |sc: &S, dec: &Option<Vec<u16>>| -> Option<(String, Vec<u16>)> {
        let spec = ExecSpec { seed: rep.exec_seed, policy: policy.clone(), replay: dec.clone() };
        let out = run_one(sc, spec, stats.clone(), true);
        match out.violation {
            Some((c, m)) if c == class => Some((m, out.record.decisions)),
            _ => None,
        }
    };
    // 1. shrink the scenario (schedule is re-derived from seed+policy, falling back when
    //    the recorded decisions stop being valid)
    let mut progress = true;
    let mut rounds = 0;
    while progress && rounds < 200 {
        progress = false;
        rounds += 1;
        for cand in rep.scenario.shrink_candidates() {
            if cand.size() >= rep.scenario.size() {
                continue;
            }
            // try with recorded decisions first, then with the pure policy
            let r = fails(&cand, &rep.decisions).or_else(|| fails(&cand, &None));
            if let Some((m, dec)) = r {
                rep.scenario = cand;
                rep.violation = m;
                rep.decisions = Some(dec);
                progress = true;
                break;
            }
        }
    }
    // 2. remove preemptions: replace a switch by "stay on the previous task"
    if let Some(mut dec) = rep.decisions.clone() {
        let mut i = 1;
        let mut budget = 2000;
        while i < dec.len() && budget > 0 {
            if dec[i] != dec[i - 1] {
                let mut cand = dec.clone();
                cand[i] = cand[i - 1];
                budget -= 1;
                if let Some((m, newdec)) = fails(&rep.scenario, &Some(cand)) {
                    dec = newdec;
                    rep.violation = m;
                    continue;
                }
            }
            i += 1;
        }
        rep.decisions = Some(dec);
    }
    rep.minimised = true;
    rep
}

pub fn main_for<S: Scenario>() {
    install_panic_hook();
    let args: Vec<String> = std::env::args().collect();
    if !args.iter().any(|a| a == "--verbose") {
        // shuttle reports failures on stderr; the harness reports on stdout only
        unsafe {
            let fd = libc::open(b"/dev/null\0".as_ptr() as *const libc::c_char, libc::O_WRONLY);
            if fd >= 0 {
                libc::dup2(fd, 2);
            }
        }
    }
    let stats = Arc::new(Stats::new(S::probe_names().len(), S::fault_names().len()));

    if let Some(path) = arg(&args, "--replay") {
        // a replayed hang aborts after the watchdog period (signal = reproduced)
        start_watchdog(arg(&args, "--watchdog-s").map(|s| s.parse().unwrap()).unwrap_or(30));
        let text = std::fs::read_to_string(&path).expect("cannot read replay file");
        let rep: Replay<S> = serde_json::from_str(&text).expect("bad replay file");
        let policy = Policy::parse(&rep.policy).expect("bad policy");
        let spec = ExecSpec { seed: rep.exec_seed, policy, replay: rep.decisions.clone() };
        let out = run_one(&rep.scenario, spec, stats.clone(), true);
        match out.violation {
            Some((class, msg)) => {
                println!("REPLAY-RESULT violation class={} msg={}", class, msg.lines().next().unwrap_or(""));
                println!("REPLAY-HASH {:016x} steps={}", out.record.hash, out.record.decisions.len());
                std::process::exit(if class == rep.violation_class { 1 } else { 3 });
            }
            None => {
                println!("REPLAY-RESULT ok");
                println!("REPLAY-HASH {:016x} steps={}", out.record.hash, out.record.decisions.len());
                std::process::exit(0);
            }
        }
    }

    let seed: u64 = arg(&args, "--seed").map(|s| s.parse().unwrap()).unwrap_or(1);
    let from: u64 = arg(&args, "--from").map(|s| s.parse().unwrap()).unwrap_or(0);
    let count: u64 = arg(&args, "--count").map(|s| s.parse().unwrap()).unwrap_or(1000);
    let stride: u64 = arg(&args, "--stride").map(|s| s.parse().unwrap()).unwrap_or(1);
    let budget_ms: u64 = arg(&args, "--budget-ms").map(|s| s.parse().unwrap()).unwrap_or(u64::MAX);
    let out_path = arg(&args, "--out");
    if let Some(p) = &out_path {
        ABORT_NOTE.lock().unwrap().0 = Some(format!("{}.abort", p));
    }
    start_watchdog(arg(&args, "--watchdog-s").map(|s| s.parse().unwrap()).unwrap_or(30));
    if let Some(idx) = arg(&args, "--emit-scenario") {
        // write the (unexecuted) replay object of one index: used when an execution aborted
        let index: u64 = idx.parse().unwrap();
        let seed: u64 = arg(&args, "--seed").map(|s| s.parse().unwrap()).unwrap_or(1);
        let mut wl = Prng::stream(seed, "workload", index);
        let scenario = S::generate(&mut wl);
        let spec = spec_for(seed, index, &scenario);
        let rep = Replay { property: S::PROPERTY.into(), harness: S::HARNESS.into(), verif_seed: seed, index, exec_seed: spec.seed, policy: spec.policy.describe(),
                           scenario, decisions: None, violation_class: "abort".into(), violation: arg(&args, "--message").unwrap_or_default(), minimised: false };
        std::fs::write(out_path.as_ref().expect("--out"), serde_json::to_string_pretty(&rep).unwrap()).unwrap();
        std::process::exit(0);
    }
    let trace_path = arg(&args, "--trace-hashes");
    let fixed_policy = arg(&args, "--policy").and_then(|p| Policy::parse(&p));

    let start = std::time::Instant::now(); // wall budget only; never feeds a decision
    let keep = trace_path.is_some();

    struct Batch<S> {
        k: u64,
        current: Option<(u64, S, ExecSpec)>,
        hashes: HashSet<u64>,
        nontrivial: HashSet<u64>,
        execs: u64,
        choice_points: u64,
        preemptions: u64,
        samples: Vec<serde_json::Value>,
        trace_lines: String,
        policy_counts: std::collections::BTreeMap<String, u64>,
        out_of_budget: bool,
    }
    let batch: Arc<Mutex<Batch<S>>> = Arc::new(Mutex::new(Batch {
        k: 0,
        current: None,
        hashes: HashSet::new(),
        nontrivial: HashSet::new(),
        execs: 0,
        choice_points: 0,
        preemptions: 0,
        samples: Vec::new(),
        trace_lines: String::new(),
        policy_counts: Default::default(),
        out_of_budget: false,
    }));
    let record = Arc::new(Mutex::new(ExecRecord::default()));

    // account for the execution that just finished (if any)
    fn harvest<S: Scenario>(b: &mut Batch<S>, rec: &ExecRecord, violated: bool, keep: bool) {
        if let Some((index, scenario, spec)) = b.current.take() {
            b.execs += 1;
            b.choice_points += rec.choice_points;
            b.preemptions += rec.preemptions;
            let h = rec.hash ^ derive(0, "scn", serde_json::to_string(&scenario).map(|s| fnv(&s)).unwrap_or(0));
            b.hashes.insert(h);
            if rec.preemptions > 0 {
                b.nontrivial.insert(h);
            }
            if keep {
                b.trace_lines.push_str(&format!("{} {:016x} {} {}\n", index, rec.hash, rec.decisions.len(), violated));
            }
            if b.samples.len() < 3 && rec.preemptions > 0 {
                b.samples.push(serde_json::json!({
                    "index": index, "policy": spec.policy.describe(), "scenario": scenario,
                    "choice_points": rec.choice_points, "preemptions": rec.preemptions,
                    "trace_hash": format!("{:016x}", rec.hash)
                }));
            }
        }
    }

    let mut violation: Option<Replay<S>> = None;
    loop {
        // one Runner runs many executions (continuation stacks are pooled inside it); a
        // violation unwinds out of it, is recorded, and the search stops.
        let b2 = batch.clone();
        let r2 = record.clone();
        let fp = fixed_policy.clone();
        let next_spec = move || -> Option<ExecSpec> {
            let mut b = b2.lock().unwrap();
            let rec = r2.lock().unwrap().clone();
            harvest(&mut *b, &rec, false, keep);
            if b.k >= count {
                return None;
            }
            if b.execs % 64 == 0 && start.elapsed().as_millis() as u64 > budget_ms {
                b.out_of_budget = true;
                return None;
            }
            let index = from + b.k * stride;
            b.k += 1;
            if let Ok(mut note) = ABORT_NOTE.try_lock() {
                note.1 = index as i64;
            }
            STARTED.fetch_add(1, std::sync::atomic::Ordering::Relaxed);
            let mut wl = Prng::stream(seed, "workload", index);
            let scenario = S::generate(&mut wl);
            let mut spec = spec_for(seed, index, &scenario);
            if let Some(p) = &fp {
                spec.policy = p.clone();
            }
            let pname = spec.policy.describe();
            *b.policy_counts.entry(pname.split(':').next().unwrap().to_string()).or_default() += 1;
            verif_rt::seed_data(spec.seed);
            b.current = Some((index, scenario, spec.clone()));
            Some(spec)
        };
        let sched = SimScheduler::new(Box::new(next_spec), record.clone(), keep);
        let runner = shuttle::Runner::new(sched, sched::config(S::stack_size(), Some(S::max_steps())));
        *LAST_PANIC.lock().unwrap() = None;
        let b3 = batch.clone();
        let st = stats.clone();
        let res = catch_unwind(AssertUnwindSafe(move || {
            runner.run(move || {
                let sc = b3.lock().unwrap().current.as_ref().map(|c| c.1.clone()).unwrap();
                verif_rt::set_active(true);
                sc.run(&st);
                verif_rt::set_active(false);
            });
        }));
        verif_rt::set_active(false);
        verif_rt::monitor::stw_leave();
        match res {
            Ok(()) => break,
            Err(_) => {
                let msg = LAST_PANIC.lock().unwrap().clone().unwrap_or_else(|| "panic".into());
                let class = classify(&msg);
                let mut b = batch.lock().unwrap();
                let (index, scenario, spec) = b.current.clone().expect("violation outside an execution");
                let rec = record.lock().unwrap().clone();
                harvest(&mut *b, &rec, true, keep);
                drop(b);
                // re-run alone to record the decisions
                let out2 = run_one(&scenario, spec.clone(), stats.clone(), true);
                let decisions = if out2.violation.as_ref().map(|v| v.0 == class).unwrap_or(false) { Some(out2.record.decisions) } else { None };
                violation = Some(Replay {
                    property: S::PROPERTY.into(),
                    harness: S::HARNESS.into(),
                    verif_seed: seed,
                    index,
                    exec_seed: spec.seed,
                    policy: spec.policy.describe(),
                    scenario,
                    decisions,
                    violation_class: class,
                    violation: msg,
                    minimised: false,
                });
                break;
            }
        }
    }
    let b = std::mem::replace(&mut *batch.lock().unwrap(), Batch {
        k: 0, current: None, hashes: HashSet::new(), nontrivial: HashSet::new(), execs: 0, choice_points: 0, preemptions: 0,
        samples: Vec::new(), trace_lines: String::new(), policy_counts: Default::default(), out_of_budget: false,
    });
    let (hashes, nontrivial, execs, choice_points, preemptions, samples, trace_lines, policy_counts) =
        (b.hashes, b.nontrivial, b.execs, b.choice_points, b.preemptions, b.samples, b.trace_lines, b.policy_counts);
    let steps = choice_points;

    if let Some(p) = &trace_path {
        std::fs::write(p, trace_lines).unwrap();
    }
    IDLE.store(true, std::sync::atomic::Ordering::Relaxed);
    if let Some(p) = arg(&args, "--hash-out") {
        // distinct non-trivial (scenario, trace) hashes, for exact merging across workers
        let cap: usize = arg(&args, "--hash-cap").map(|s| s.parse().unwrap()).unwrap_or(4_000_000);
        let mut bytes = Vec::with_capacity(8 * nontrivial.len().min(cap));
        for h in nontrivial.iter().take(cap) {
            bytes.extend_from_slice(&h.to_le_bytes());
        }
        std::fs::write(p, bytes).unwrap();
    }

    let mut exit = 0;
    let mut vio_json = serde_json::Value::Null;
    if let Some(rep) = violation {
        if let Some(p) = &out_path {
            // keep the unminimised replay on disk: minimisation re-executes the failure and a
            // panic inside an extern "C" runtime entry cannot unwind (the process aborts)
            std::fs::write(p, serde_json::to_string_pretty(&rep).unwrap()).unwrap();
        }
        IDLE.store(false, std::sync::atomic::Ordering::Relaxed);
        let rep = if arg(&args, "--no-minimise").is_some() { rep } else { minimise(rep, stats.clone()) };
        IDLE.store(true, std::sync::atomic::Ordering::Relaxed);
        let text = serde_json::to_string_pretty(&rep).unwrap();
        if let Some(p) = &out_path {
            std::fs::write(p, &text).unwrap();
        }
        vio_json = serde_json::json!({"class": rep.violation_class, "message": rep.violation, "index": rep.index, "file": out_path});
        exit = 1;
    }

    let probes: serde_json::Map<String, serde_json::Value> = S::probe_names()
        .iter()
        .enumerate()
        .map(|(i, n)| (n.to_string(), stats.probes[i].load(std::sync::atomic::Ordering::Relaxed).into()))
        .collect();
    let faults: serde_json::Map<String, serde_json::Value> = S::fault_names()
        .iter()
        .enumerate()
        .map(|(i, n)| (n.to_string(), stats.faults[i].load(std::sync::atomic::Ordering::Relaxed).into()))
        .collect();
    let summary = serde_json::json!({
        "harness": S::HARNESS, "property": S::PROPERTY, "seed": seed, "from": from, "stride": stride,
        "executions": execs, "scheduler_steps": steps, "choice_points": choice_points, "preemptions": preemptions,
        "distinct": hashes.len(), "distinct_nontrivial": nontrivial.len(),
        "policies": policy_counts, "probes": probes, "faults": faults, "samples": samples,
        "violation": vio_json, "wall_ms": start.elapsed().as_millis() as u64,
    });
    println!("SUMMARY {}", summary);
    std::process::exit(exit);
}

pub fn fnv(s: &str) -> u64 {
    let mut h: u64 = 0xcbf2_9ce4_8422_2325;
    for b in s.bytes() {
        h ^= b as u64;
        h = h.wrapping_mul(0x0000_0100_0000_01b3);
    }
    h
}
