#!/bin/bash
# exits 1 if the defect shows (notify_one without waiter never returns), 0 otherwise
HERE="$(cd "$(dirname "$0")" && pwd)"
ROOT="${ROOT:-$(cd "$HERE/../.." && pwd)}"
cd "$ROOT" || exit 2
export CARGO_NET_OFFLINE=true
if [ ! -x target/debug/dora ] || [ ! -f target/debug/libdora_runtime.a ]; then
  cargo build --offline -p dora -p dora-runtime -p dora-startup >/dev/null 2>&1 || { echo "build failed"; exit 2; }
fi
OUT="$(mktemp -d)"
target/debug/dora compile --cannon "$HERE/tombstones.dora" -o "$OUT/tombstones" >"$OUT/compile.log" 2>&1 || { cat "$OUT/compile.log"; echo "compile failed"; exit 2; }

echo "== control run (a collection before the last notify_one) =="
timeout 60 "$OUT/tombstones" gc; crc=$?
echo "control exit code: $crc"

echo "== real run =="
timeout 30 "$OUT/tombstones" > "$OUT/out.txt" 2>&1; rc=$?
cat "$OUT/out.txt"
echo "exit code: $rc"
if [ $rc -eq 124 ] && grep -q "phase 3 done" "$OUT/out.txt" && ! grep -q "phase 4 done" "$OUT/out.txt"; then
  echo "DEFECT: Condition::notify_one() on a condition without waiter never returned (spins in ObjectHashMap::get holding the wait-table lock)"
  exit 1
fi
if [ $rc -ne 0 ]; then echo "unexpected result"; exit 2; fi
echo "not reproduced"
exit 0
