#!/bin/bash
# exits 1 if a program that only allocates short-lived 24-byte objects from several threads
# dies with "out of memory" although a few MiB of a 32 MiB heap are in use; 0 otherwise.
HERE="$(cd "$(dirname "$0")" && pwd)"
ROOT="${ROOT:-$(cd "$HERE/../.." && pwd)}"
cd "$ROOT" || exit 2
export CARGO_NET_OFFLINE=true
if [ ! -x target/debug/dora ] || [ ! -f target/debug/libdora_runtime.a ]; then
  cargo build --offline -p dora -p dora-runtime -p dora-startup >/dev/null 2>&1 || { echo "build failed"; exit 2; }
fi
OUT="$(mktemp -d)"
target/debug/dora compile --cannon "$HERE/garbage-threads.dora" -o "$OUT/garbage-threads" >"$OUT/compile.log" 2>&1 || { cat "$OUT/compile.log"; echo "compile failed"; exit 2; }

FLAGS="--max-heap-size=32M --gc-young-size=2M --gc-verbose"
NPROC=$(nproc 2>/dev/null || echo 4)
THREADS=$(( NPROC * 4 )); [ $THREADS -lt 16 ] && THREADS=16
ITER=${ITER:-2000000}
RUNS=${RUNS:-8}

echo "== control: 1 thread, same flags =="
DORA_FLAGS="$FLAGS" timeout 600 "$OUT/garbage-threads" 1 $ITER > "$OUT/control.txt" 2>&1; echo "control exit code: $? ($(grep -c 'GC:' "$OUT/control.txt") collections)"

for run in $(seq 1 $RUNS); do
  DORA_FLAGS="$FLAGS" timeout 900 "$OUT/garbage-threads" $THREADS $ITER > "$OUT/out.txt" 2>&1; rc=$?
  echo "== run $run: $THREADS threads, exit code $rc, $(grep -c 'GC:' "$OUT/out.txt") collections"
  if grep -q "^out of memory" "$OUT/out.txt"; then
    echo "last collections and the trap:"
    grep -B4 -A4 "^out of memory" "$OUT/out.txt"
    echo "DEFECT: 'out of memory' with a few MiB of a 32 MiB heap in use (no live data besides the thread objects)"
    exit 1
  fi
done
echo "not reproduced"
exit 0
