#!/bin/bash
# Exits 1 when the defect is observed on the unmodified checkout, 0 otherwise.
HERE="$(cd "$(dirname "$0")" && pwd)"
ROOT="${ROOT:-$(cd "$HERE/../.." && pwd)}"
WORK="$(mktemp -d)"
trap 'rm -rf "$WORK"' EXIT
ulimit -c 0 2>/dev/null

cd "$ROOT" || exit 2
if ! CARGO_NET_OFFLINE=true cargo build --offline -q -p dora -p dora-runtime -p dora-startup >"$WORK/build.log" 2>&1; then
    if [ ! -x "$ROOT/target/debug/dora" ]; then
        cat "$WORK/build.log"; echo "build failed"; exit 2
    fi
fi
DORA="$ROOT/target/debug/dora"

"$DORA" compile --cannon "$HERE/div0.dora" -o "$WORK/div0" >"$WORK/c1.log" 2>&1 || { cat "$WORK/c1.log"; exit 2; }
"$DORA" compile --cannon "$HERE/overflow.dora" -o "$WORK/overflow" >"$WORK/c2.log" 2>&1 || { cat "$WORK/c2.log"; exit 2; }

bad=0

# Reference run: stderr is writable.
"$WORK/div0" >"$WORK/ref.out" 2>"$WORK/ref.err"; ref=$?
echo "reference: exit=$ref stdout=[$(tr '\n' '|' <"$WORK/ref.out")]"
sed 's/^/    stderr: /' "$WORK/ref.err"
if [ $ref -ne 101 ] || ! grep -q partial "$WORK/ref.out"; then
    echo "reference run is already wrong"; exit 2
fi

# Scenario 1: every write to stderr fails with ENOSPC (log file on a full disk).
"$WORK/div0" >"$WORK/s1.out" 2>/dev/full; s1=$?
echo "scenario 1 (stderr -> /dev/full): exit=$s1 stdout=[$(tr '\n' '|' <"$WORK/s1.out")]"
if [ $s1 -ne 101 ]; then echo "  BAD: exit status $s1 does not identify the trap (expected 101 = division by 0)"; bad=1; fi
if ! grep -q partial "$WORK/s1.out"; then echo "  BAD: 'partial', written to stdout before the trap, was not delivered"; bad=1; fi

# Scenario 2: stderr is a pipe whose reader only wants the first line; stdout goes to a file.
( "$WORK/overflow" 2>&1 1>"$WORK/s2.out"; echo $? >"$WORK/s2.status" ) | head -n 1 >"$WORK/s2.first"
s2=$(cat "$WORK/s2.status")
echo "scenario 2 (stderr | head -n 1): first line=[$(cat "$WORK/s2.first")] exit=$s2 stdout=[$(tr '\n' '|' <"$WORK/s2.out")]"
if [ "$s2" -ne 107 ]; then echo "  BAD: exit status $s2 does not identify the trap (expected 107 = stack overflow)"; bad=1; fi
if ! grep -q partial "$WORK/s2.out"; then echo "  BAD: 'partial', written to stdout before the trap, was not delivered"; bad=1; fi

if [ $bad -ne 0 ]; then echo "DEFECT OBSERVED"; exit 1; fi
echo "no defect observed"
exit 0
