#!/bin/bash
# Demonstrates: heap exhaustion does not end in the out-of-memory trap while
# another thread is inside std::sleep -- the process hangs until the sleeper wakes.
#
# exit 1 = bad behaviour observed (no OOM trap although the heap is exhausted)
# exit 0 = OOM trap arrived promptly (defect not observed) or run inconclusive
HERE=$(cd "$(dirname "$0")" && pwd)
ROOT=${ROOT:-$(cd "$HERE/../.." && pwd)}
GCS=${GCS:-"copy swiper"}
cd "$ROOT" || exit 0

if [ ! -x target/debug/dora ] || [ ! -f target/debug/libdora_runtime.a ]; then
    CARGO_NET_OFFLINE=true cargo build --offline -p dora -p dora-runtime -p dora-startup >&2 || exit 0
fi

WORK=$(mktemp -d /tmp/c13-sleep.XXXXXX)
trap 'rm -rf "$WORK"' EXIT
export DORA_FLAGS="--max-heap-size=8M"
bad=0

for gc in $GCS; do
    bin="$WORK/oom-$gc"
    target/debug/dora compile --cannon --gc=$gc "$HERE/oom-while-sleeping.dora" -o "$bin" 2>&1 | grep -v "ld:" >&2
    [ -x "$bin" ] || { echo "[$gc] compilation failed, skipped"; continue; }

    # control: no helper thread -> must trap with exit code 106 (101 + Trap::OOM)
    s=$(date +%s)
    timeout 300 "$bin" 0 >/dev/null 2>"$WORK/err0"; rc0=$?
    t0=$(( $(date +%s) - s ))
    echo "[$gc] control (no sleeping thread): rc=$rc0 after ${t0}s: $(head -1 "$WORK/err0")"
    if [ $rc0 -ne 106 ]; then echo "[$gc] control did not trap, inconclusive"; continue; fi

    # generous limit: 20x the control time, at least 40 s
    limit=$(( t0 * 20 )); [ $limit -lt 40 ] && limit=40

    # test: helper thread sleeps "forever" (1,000,000 s)
    s=$(date +%s)
    timeout $limit "$bin" 1000000 >/dev/null 2>"$WORK/err1"; rc1=$?
    t1=$(( $(date +%s) - s ))
    echo "[$gc] with a thread in std::sleep(1000000): rc=$rc1 after ${t1}s (limit ${limit}s): $(head -1 "$WORK/err1")"
    if [ $rc1 -eq 124 ]; then
        echo "[$gc] BAD: heap exhausted but no out-of-memory trap - process hangs in stop_the_world"
        bad=1
    fi

    # illustration: the trap arrives exactly when the sleeper wakes up (20 s)
    if [ -n "$ILLUSTRATE" ]; then
        s=$(date +%s)
        timeout 200 "$bin" 20 >/dev/null 2>"$WORK/err2"; rc2=$?
        echo "[$gc] with a thread in std::sleep(20): rc=$rc2 after $(( $(date +%s) - s ))s"
    fi
done

exit $bad
