#!/bin/bash
# Demonstrates: the stack limit is "stack pointer at thread start minus 500 KiB" without
# looking at the real size of the stack. When the stack the thread actually got is
# smaller than that budget, unbounded recursion ends with SIGSEGV instead of the
# stack-overflow trap.
#
# exit 1 = bad behaviour observed (segmentation fault instead of exit code 107)
# exit 0 = every run ended with the stack-overflow trap (or run inconclusive)
HERE=$(cd "$(dirname "$0")" && pwd)
ROOT=${ROOT:-$(cd "$HERE/../.." && pwd)}
cd "$ROOT" || exit 0

if [ ! -x target/debug/dora ] || [ ! -f target/debug/libdora_runtime.a ]; then
    CARGO_NET_OFFLINE=true cargo build --offline -p dora -p dora-runtime -p dora-startup >&2 || exit 0
fi

WORK=$(mktemp -d /tmp/c13-stack.XXXXXX)
trap 'rm -rf "$WORK"' EXIT
bad=0

for p in recurse-main recurse-thread; do
    target/debug/dora compile --cannon "$HERE/$p.dora" -o "$WORK/$p" 2>&1 | grep -v "ld:" >&2
    [ -x "$WORK/$p" ] || { echo "compilation of $p failed"; exit 0; }
done

run() { # label, command...
    label=$1; shift
    ( "$@" ) >/dev/null 2>"$WORK/err"; rc=$?
    echo "$label -> rc=$rc $(head -1 "$WORK/err")"
    return $rc
}

# controls: default environment, both must end with the trap (101 + Trap::STACK_OVERFLOW = 107)
run "control main thread   " "$WORK/recurse-main";   [ $? -eq 107 ] || { echo "control failed, inconclusive"; exit 0; }
run "control spawned thread" "$WORK/recurse-thread"; [ $? -eq 107 ] || { echo "control failed, inconclusive"; exit 0; }

# main thread with a 400 KiB stack (soft limit, any user may lower it)
run "main thread, ulimit -s 400          " bash -c "ulimit -s 400; exec '$WORK/recurse-main'"
rc=$?; [ $rc -eq 107 ] || { echo "  BAD: expected the stack-overflow trap (107), got $rc"; bad=1; }

# spawned thread with a 256 KiB stack (std::thread honours RUST_MIN_STACK, the runtime never asks for a size)
run "spawned thread, RUST_MIN_STACK=262144" env RUST_MIN_STACK=262144 "$WORK/recurse-thread"
rc=$?; [ $rc -eq 107 ] || { echo "  BAD: expected the stack-overflow trap (107), got $rc"; bad=1; }

exit $bad
