#!/bin/bash
# Exits 1 when the defect is observed on the unmodified checkout, 0 otherwise.
# ROOT = checkout to test (default: two directories up from this script).
HERE="$(cd "$(dirname "$0")" && pwd)"
ROOT="${ROOT:-$(cd "$HERE/../.." && pwd)}"
export CARGO_NET_OFFLINE=true
( cd "$ROOT" && cargo build --offline -p dora -p dora-runtime -p dora-startup ) >/dev/null 2>&1 || {
    echo "cargo build failed"; exit 2; }
DORA="$ROOT/target/debug/dora"
TMP="$(mktemp -d)"; trap 'rm -rf "$TMP"' EXIT
bad=0

# $1 = program, $2 = expected stdout
check() {
    local prog="$1" expected="$2" name; name="$(basename "$1" .dora)"
    # 1. the front end accepts the program and the package round-trips through the driver
    if ! "$DORA" compile -c "$prog" -o "$TMP/$name.dora-package" >"$TMP/$name.pkg.log" 2>&1; then
        echo "[$name] front end rejected the program (unexpected)"; cat "$TMP/$name.pkg.log"; return
    fi
    # 2. build an executable, once from the source and once from the package
    for input in "$prog" "$TMP/$name.dora-package"; do
        if "$DORA" compile --cannon "$input" -o "$TMP/$name.exe" >"$TMP/$name.log" 2>&1; then
            out="$("$TMP/$name.exe")"
            if [ "$out" == "$expected" ]; then
                echo "[$name] $(basename "$input"): builds and prints '$out' (ok)"
            else
                echo "[$name] $(basename "$input"): WRONG OUTPUT '$out', expected '$expected'"; bad=1
            fi
        else
            echo "[$name] $(basename "$input"): BUILD FAILED:"
            grep -E "already defined|Error" "$TMP/$name.log" | sed 's/^/    /'
            grep -q "already defined" "$TMP/$name.log" && bad=1
        fi
    done
}

check "$HERE/control-renamed.dora"        "1 2 3"
check "$HERE/same-name-classes.dora"      "1 2 3"
check "$HERE/same-name-impl-methods.dora" "1 102"
check "$HERE/trait-object-bindings.dora"  "10 x"

# 3. the bytecode dump (read-back of the emitted function) drops the bindings of trait object types
dump="$("$DORA" compile -c --emit-bytecode=main "$HERE/trait-object-bindings.dora" -o "$TMP/d.dora-package" 2>/dev/null)"
if echo "$dump" | grep -q "NewTraitObject .* # Iterator\[\] wrapping"; then
    echo "[dump] Iterator[Item=Int64] and Iterator[Item=String] are both printed as 'Iterator[]':"
    echo "$dump" | grep "NewTraitObject" | sed 's/^/    /'
    bad=1
fi

if [ $bad -ne 0 ]; then echo "DEFECT OBSERVED"; exit 1; fi
echo "defect not observed"; exit 0
