#!/bin/bash
# Exits 1 when the defect is observed (a program without live data ends in the
# out-of-memory trap), 0 otherwise.
HERE="$(cd "$(dirname "$0")" && pwd)"
ROOT="${ROOT:-$(cd "$HERE/../.." && pwd)}"
WORK="$(mktemp -d)"
trap 'rm -rf "$WORK"' EXIT

cd "$ROOT" || exit 0
CARGO_NET_OFFLINE=true cargo build --offline -p dora -p dora-runtime -p dora-startup >/dev/null 2>&1 \
    || { echo "build failed"; exit 0; }

bad=0
for gc in copy sweep swiper; do
    for prog in control leak; do
        target/debug/dora compile --cannon --gc=$gc "$HERE/$prog.dora" -o "$WORK/$prog-$gc" >/dev/null 2>&1 \
            || { echo "compile of $prog ($gc) failed"; exit 0; }
        out="$(DORA_FLAGS="--max-heap-size=32M" timeout 600 "$WORK/$prog-$gc" 2>&1)"
        rc=$?
        echo "gc=$gc prog=$prog rc=$rc: $(echo "$out" | head -1)"
        if [ "$prog" = control ] && [ $rc -ne 0 ]; then
            echo "control program failed, result not meaningful"; exit 0
        fi
        if [ "$prog" = leak ] && [ $rc -eq 106 ]; then
            bad=1
        fi
    done
done

if [ $bad -eq 1 ]; then
    echo "DEFECT: program that retains nothing ended with the out-of-memory trap (32M heap)"
    exit 1
fi
echo "ok"
exit 0
