#!/bin/bash
# Demonstrates: std::Stacktrace#capture (dora-runtime/src/stack.rs) creates a GC
# handle outside of any handle scope, so every captured back-trace array stays a
# strong root for the rest of the thread's life. A program whose reachable data
# is one Stacktrace at a time runs out of memory under every reclaiming collector.
#
# exit 1 = defect observed (leak.dora dies with "out of memory" while the
#          equivalent control.dora finishes in the same heap)
# exit 0 = not observed
set -u
HERE="$(cd "$(dirname "$0")" && pwd)"
ROOT="${ROOT:-$(cd "$HERE/../.." && pwd)}"
HEAP="${HEAP:-16M}"
COLLECTORS="${COLLECTORS:-copy sweep swiper}"

cd "$ROOT" || exit 2
export CARGO_NET_OFFLINE=true
if ! cargo build --offline -p dora -p dora-runtime -p dora-startup >/dev/null 2>&1; then
    echo "build failed" >&2
    exit 2
fi
DORA="$ROOT/target/debug/dora"

OUT="$(mktemp -d)"
trap 'rm -rf "$OUT"' EXIT

bad=0
for gc in $COLLECTORS; do
    for prog in control leak; do
        if ! "$DORA" compile --cannon --gc=$gc "$HERE/$prog.dora" -o "$OUT/$prog-$gc" >"$OUT/compile.log" 2>&1; then
            cat "$OUT/compile.log" >&2
            echo "compile of $prog.dora failed" >&2
            exit 2
        fi
    done

    DORA_FLAGS="--max-heap-size=$HEAP" "$OUT/control-$gc" >"$OUT/control.out" 2>"$OUT/control.err"
    cstatus=$?
    DORA_FLAGS="--max-heap-size=$HEAP" "$OUT/leak-$gc" >"$OUT/leak.out" 2>"$OUT/leak.err"
    lstatus=$?

    echo "gc=$gc heap=$HEAP control: status=$cstatus stdout='$(cat "$OUT/control.out")'"
    echo "gc=$gc heap=$HEAP leak:    status=$lstatus stdout='$(cat "$OUT/leak.out")' stderr='$(head -1 "$OUT/leak.err")'"

    if [ $cstatus -ne 0 ] || [ "$(cat "$OUT/control.out")" != "checksum = 400000" ]; then
        echo "  control program did not finish: demonstration inconclusive for gc=$gc" >&2
        continue
    fi
    if [ $lstatus -ne 0 ] || [ "$(cat "$OUT/leak.out")" != "checksum = 400000" ]; then
        echo "  DEFECT: leak.dora (reachable data: one Stacktrace) failed under gc=$gc, control.dora passed"
        bad=1
    fi
done

# Additional evidence (copy collector): survivors after each collection only grow.
if [ -x "$OUT/leak-copy" ]; then
    echo "--- survivors per collection, copy collector (old->new size) ---"
    DORA_FLAGS="--max-heap-size=$HEAP --gc-verbose" "$OUT/leak-copy" 2>/dev/null | grep "Copy GC" | head -6
fi

exit $bad
