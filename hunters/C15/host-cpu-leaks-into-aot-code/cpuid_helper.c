/* prints "eax ebx ecx edx" (hex) of CPUID(leaf, subleaf) on this machine */
#include <stdio.h>
#include <stdlib.h>
#include <cpuid.h>
int main(int argc, char **argv) {
    unsigned leaf = argc > 1 ? strtoul(argv[1], 0, 16) : 0;
    unsigned sub = argc > 2 ? strtoul(argv[2], 0, 16) : 0;
    unsigned a, b, c, d;
    __cpuid_count(leaf, sub, a, b, c, d);
    printf("%x %x %x %x\n", a, b, c, d);
    return 0;
}
