#!/bin/bash
# C15 - the machine code that `dora compile` writes depends on the CPU of the
# machine the compiler happens to run on (AVX2 detection at compile time), for
# both code generators.  Same sources, same options, different build host =>
# different assembly file and executable.
#
# The second "build host" is this machine with the AVX/AVX2 bits of CPUID
# hidden (cpuid_mask.py, a debugger script; the compiler binaries and sources
# are untouched).
#
# exit 1: bad behaviour observed (outputs differ), exit 0: not observed.
set -u
HERE=$(cd "$(dirname "$0")" && pwd)
ROOT=${ROOT:-$(cd "$HERE/../.." && pwd)}
cd "$ROOT" || exit 0

for tool in gdb objdump readelf gcc; do
    command -v $tool >/dev/null || { echo "SKIP: $tool not available"; exit 0; }
done
if ! grep -qw avx2 /proc/cpuinfo; then
    echo "SKIP: this machine has no AVX2, hiding it changes nothing"
    exit 0
fi

export CARGO_NET_OFFLINE=true
cargo build --offline -p dora -p dora-runtime -p dora-startup >/dev/null 2>&1
cargo build --offline -p dora --bin dora-cannon-compiler >/dev/null 2>&1
DORA=$ROOT/target/debug/dora
CANNON=$ROOT/target/debug/dora-cannon-compiler
[ -x "$DORA" ] && [ -x "$CANNON" ] || { echo "build failed"; exit 0; }

W=$ROOT/target/c15-host-cpu
rm -rf "$W"; mkdir -p "$W"
gcc -O1 -o "$W/cpuid_helper" "$HERE/cpuid_helper.c" || exit 0
export CPUID_HELPER=$W/cpuid_helper

# the optimizing generator, built by the baseline generator (a few seconds)
BOOTS=$W/boots-compiler
"$DORA" compile --internal-compile-boots --cannon pkgs/boots/boots.dora -o "$BOOTS" >/dev/null 2>&1
[ -x "$BOOTS" ] || { echo "could not build the optimizing generator"; exit 0; }

"$DORA" compile -c "$HERE/float.dora" -o "$W/float.dora-package" || exit 0

link() { # asm -> executable, the way dora/src/driver/compile.rs does it
    gcc -c "$1" -o "$1.o" 2>/dev/null &&
    gcc "$1.o" "$ROOT/target/debug/libdora_startup.a" "$ROOT/target/debug/libdora_runtime.a" \
        -Wl,-x -lpthread -ldl -lm -o "$2" 2>/dev/null
}

bad=0
for gen in cannon boots; do
    if [ $gen = cannon ]; then COMPILER=$CANNON; else COMPILER=$BOOTS; fi

    # host A: this machine
    "$COMPILER" "$W/float.dora-package" -o "$W/$gen-hostA.s" || exit 0
    "$COMPILER" "$W/float.dora-package" -o "$W/$gen-hostA-again.s" || exit 0
    # control: same debugger script, nothing hidden -> must equal host A
    CPUID_NOMASK=1 gdb -q -batch -x "$HERE/cpuid_mask.py" --args \
        "$COMPILER" "$W/float.dora-package" -o "$W/$gen-control.s" 2>&1 | grep cpuid_mask:
    # host B: this machine, AVX/AVX2/FMA/F16C hidden
    gdb -q -batch -x "$HERE/cpuid_mask.py" --args \
        "$COMPILER" "$W/float.dora-package" -o "$W/$gen-hostB.s" 2>&1 | grep cpuid_mask:

    for f in hostA hostA-again control hostB; do
        [ -s "$W/$gen-$f.s" ] || { echo "$gen: no output for $f"; exit 0; }
    done
    cmp -s "$W/$gen-hostA.s" "$W/$gen-hostA-again.s" || { echo "$gen: unstable on one host?!"; exit 0; }
    cmp -s "$W/$gen-hostA.s" "$W/$gen-control.s" || { echo "$gen: debugger alone changes the output - demo invalid"; exit 0; }

    link "$W/$gen-hostA.s" "$W/$gen-hostA.exe"
    link "$W/$gen-hostB.s" "$W/$gen-hostB.exe"

    vexA=$(grep -c "0xc5, 0xf[ab]" "$W/$gen-hostA.s")
    vexB=$(grep -c "0xc5, 0xf[ab]" "$W/$gen-hostB.s")
    echo "$gen: sha256 host A  $(sha256sum < "$W/$gen-hostA.s" | cut -c1-16)  (lines with VEX scalar-double prefix c5 fa/fb: $vexA)"
    echo "$gen: sha256 host B  $(sha256sum < "$W/$gen-hostB.s" | cut -c1-16)  (lines with VEX scalar-double prefix c5 fa/fb: $vexB)"
    if ! cmp -s "$W/$gen-hostA.s" "$W/$gen-hostB.s"; then
        echo "$gen: DEFECT - assembly for the same package and options differs between the two hosts"
        bad=1
    fi
    if [ -x "$W/$gen-hostA.exe" ] && [ -x "$W/$gen-hostB.exe" ]; then
        if ! cmp -s "$W/$gen-hostA.exe" "$W/$gen-hostB.exe"; then
            echo "$gen: executables differ too; both print: $("$W/$gen-hostA.exe") / $("$W/$gen-hostB.exe")"
        fi
    fi
done

if [ $bad = 1 ]; then
    echo "RESULT: compiler output depends on the CPU of the build machine (outputs kept in $W)"
    exit 1
fi
echo "RESULT: outputs identical"
exit 0
