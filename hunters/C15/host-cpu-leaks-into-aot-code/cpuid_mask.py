# gdb script: run the debuggee as if the CPU had no AVX/AVX2/FMA/F16C.
#
# Nothing in the debuggee is modified.  A breakpoint sits on every CPUID
# instruction of the executable.  When one is reached the script asks the
# helper program (environment variable CPUID_HELPER) for the real CPUID result
# of this machine, clears the AVX (leaf 1, ECX bit 28), FMA (leaf 1, ECX bit
# 12), F16C (leaf 1, ECX bit 29) and AVX2 (leaf 7.0, EBX bit 5) bits, stores
# the result in RAX/RBX/RCX/RDX and moves the program counter behind the
# instruction - i.e. CPUID is emulated the way a Pentium/Celeron/Atom class
# x86-64 CPU (or a VM with a conservative CPU model) answers it.  (The
# instruction is emulated rather than single-stepped because single-stepping a
# CPUID that the hypervisor intercepts skips one instruction on KVM.)
# With CPUID_NOMASK=1 nothing is hidden (control run).
#   CPUID_HELPER=./cpuid_helper gdb -q -batch -x cpuid_mask.py --args <exe> <args...>
import gdb
import os
import re
import subprocess

gdb.execute("set pagination off")
gdb.execute("set confirm off")
gdb.execute("handle SIGSEGV nostop noprint pass")
gdb.execute("handle SIGUSR1 nostop noprint pass")
gdb.execute("handle SIGUSR2 nostop noprint pass")

helper = os.environ["CPUID_HELPER"]
nomask = os.environ.get("CPUID_NOMASK") == "1"   # control run: emulate, hide nothing
exe = gdb.current_progspace().filename
dis = subprocess.check_output(["objdump", "-d", "--no-show-raw-insn", exe]).decode()
cpuid_vaddrs = [int(m.group(1), 16)
                for m in re.finditer(r"^\s*([0-9a-f]+):\s+cpuid\s*$", dis, re.M)]
hdr = subprocess.check_output(["readelf", "-h", exe]).decode()
is_pie = re.search(r"Type:\s+DYN", hdr) is not None

gdb.execute("starti", to_string=True)

base = 0
if is_pie:
    maps = gdb.execute("info proc mappings", to_string=True)
    for line in maps.splitlines():
        f = line.split()
        if len(f) >= 5 and f[0].startswith("0x") and f[-1] == exe:
            base = int(f[0], 16)
            break
    assert base != 0, "load base not found"

sites = set()
for v in cpuid_vaddrs:
    gdb.execute("break *0x%x" % (base + v), to_string=True)
    sites.add(base + v)

cache = {}
masked = 0
emulated = 0
while True:
    try:
        gdb.execute("continue", to_string=True)
    except gdb.error:
        break
    inf = gdb.selected_inferior()
    if not inf.is_valid() or inf.pid == 0:
        break
    try:
        pc = int(gdb.parse_and_eval("$pc"))
    except gdb.error:
        break
    if pc not in sites:
        continue
    leaf = int(gdb.parse_and_eval("$eax")) & 0xffffffff
    sub = int(gdb.parse_and_eval("$ecx")) & 0xffffffff
    if (leaf, sub) not in cache:
        out = subprocess.check_output([helper, "%x" % leaf, "%x" % sub]).decode().split()
        cache[(leaf, sub)] = [int(x, 16) for x in out]
    a, b, c, d = cache[(leaf, sub)]
    if nomask:
        pass
    elif leaf == 1:
        c &= ~((1 << 28) | (1 << 12) | (1 << 29))
        masked += 1
    elif leaf == 7 and sub == 0:
        b &= ~(1 << 5)
        masked += 1
    gdb.execute("set $rax = 0x%x" % a)
    gdb.execute("set $rbx = 0x%x" % b)
    gdb.execute("set $rcx = 0x%x" % c)
    gdb.execute("set $rdx = 0x%x" % d)
    gdb.execute("set $pc = 0x%x" % (pc + 2))      # cpuid is 0f a2
    emulated += 1

print("cpuid_mask: %d cpuid sites, %d executions emulated, %d results masked"
      % (len(cpuid_vaddrs), emulated, masked))
