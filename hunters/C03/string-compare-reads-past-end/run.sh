#!/bin/bash
# Exits 1 when the defect is observed (output of a deterministic program depends on the
# GC configuration / equal strings do not compare equal), 0 otherwise.
HERE="$(cd -- "$(dirname -- "$0")" && pwd)"
ROOT="${ROOT:-$(cd -- "$HERE/../.." && pwd)}"
export CARGO_NET_OFFLINE=true
WORK="$(mktemp -d)"
trap 'rm -rf "$WORK"' EXIT

cd "$ROOT" || exit 2
if [ ! -x target/debug/dora ] || [ ! -f target/debug/libdora_runtime.a ]; then
    cargo build --offline -p dora -p dora-runtime -p dora-startup >"$WORK/build.log" 2>&1 || { cat "$WORK/build.log"; exit 2; }
fi
DORA="$ROOT/target/debug/dora"

"$DORA" compile --cannon "$HERE/neighbours.dora" -o "$WORK/neighbours" >"$WORK/c1.log" 2>&1 || { cat "$WORK/c1.log"; exit 2; }
"$DORA" compile --cannon --gc=sweep "$HERE/recycled.dora" -o "$WORK/recycled" >"$WORK/c2.log" 2>&1 || { cat "$WORK/c2.log"; exit 2; }

bad=0
BASE="--max-heap-size=32M --gc-young-size=4M"

echo "### neighbours.dora, generational collector (expected everywhere: less=0 equal=300 greater=0)"
ref=""
for extra in "" "--disable-tlab" "--gc-stress-minor" "--gc-stress --disable-tlab" "--gc-worker=1" "--gc-worker=8"; do
    out="$(DORA_FLAGS="$BASE $extra" timeout 600 "$WORK/neighbours" 2>&1)"; st=$?
    printf '%-32s exit=%s  %s\n' "[$extra]" "$st" "$out"
    [ -z "$ref" ] && ref="$out"
    [ "$out" != "$ref" ] && { echo "    -> output differs from the first configuration"; bad=1; }
    case "$out" in *"less=0 equal=300 greater=0"*) ;; *) bad=1 ;; esac
done

echo "### recycled.dora, mark-sweep collector (expected everywhere: 0 and 0)"
ref=""
for flags in "--max-heap-size=64M" "--max-heap-size=1M" "--max-heap-size=1M --disable-tlab" "--max-heap-size=4M"; do
    out="$(DORA_FLAGS="$flags" timeout 600 "$WORK/recycled" 2>&1 | tr '\n' ';')"; st=$?
    printf '%-36s %s\n' "[$flags]" "$out"
    [ -z "$ref" ] && ref="$out"
    [ "$out" != "$ref" ] && { echo "    -> output differs from the first configuration"; bad=1; }
done

if [ $bad -ne 0 ]; then
    echo "DEFECT OBSERVED: program output depends on the GC configuration"
    exit 1
fi
echo "no defect observed"
exit 0
