#!/bin/bash
# exits 1 when the defect is observed (joining the main thread never returns),
# exits 0 otherwise.
HERE="$(cd "$(dirname "$0")" && pwd)"
ROOT="${ROOT:-$(cd "$HERE/../.." && pwd)}"
WORK="$(mktemp -d)"
trap 'rm -rf "$WORK"' EXIT
cd "$ROOT" || exit 2

if [ ! -x target/debug/dora ] || [ ! -f target/debug/libdora_startup.a ]; then
    CARGO_NET_OFFLINE=true cargo build --offline -p dora -p dora-runtime -p dora-startup >&2 || exit 2
fi

bad=0
for prog in join_worker_control join_main join_main_late; do
    target/debug/dora compile --cannon "$HERE/$prog.dora" -o "$WORK/$prog" >"$WORK/compile.log" 2>&1
    if [ ! -x "$WORK/$prog" ]; then
        cat "$WORK/compile.log" >&2
        echo "could not compile $prog" >&2
        exit 2
    fi
    for gc in "" ; do
        timeout 20 "$WORK/$prog" >"$WORK/out.txt" 2>&1
        rc=$?
        echo "$prog: exit status $rc, output: $(tr '\n' ' ' <"$WORK/out.txt")"
        if [ "$prog" = join_worker_control ]; then
            if [ $rc -ne 0 ]; then
                echo "control failed - environment problem" >&2
                exit 2
            fi
        elif [ $rc -eq 124 ]; then
            echo "  -> DEFECT: join() on the main thread never returned (killed after 20 s)"
            bad=1
        elif [ $rc -ne 0 ] || ! grep -q "joined main" "$WORK/out.txt"; then
            echo "  -> DEFECT: unexpected result"
            bad=1
        fi
    done
done
exit $bad
