// Harness for dora-runtime/src/gc/worklist.rs. The file under test is compiled
// UNMODIFIED (pulled in with include!); only the two items it imports from the rest
// of the runtime (crate::gc::Address, crate::mem::ptr_width_usize) are stubbed.
//
// A checking global allocator records every 1024-byte block (= one worklist segment):
// freed segments are poisoned with 0xAA and quarantined instead of being released, so
// that reads from freed segments and bogus frees are reported instead of silently
// corrupting the C heap.

use std::alloc::{GlobalAlloc, Layout, System};
use std::sync::atomic::{AtomicBool, AtomicUsize, Ordering};

pub mod gc {
    #[derive(Copy, Clone, PartialEq, Eq, Debug)]
    pub struct Address(usize);

    impl Address {
        pub fn null() -> Address {
            Address(0)
        }
        pub fn to_usize(self) -> usize {
            self.0
        }
    }

    impl From<usize> for Address {
        fn from(v: usize) -> Address {
            Address(v)
        }
    }

    #[allow(dead_code)]
    pub mod worklist {
        include!(concat!(env!("DORA_ROOT"), "/dora-runtime/src/gc/worklist.rs"));
    }
}

pub mod mem {
    pub const fn ptr_width_usize() -> usize {
        std::mem::size_of::<usize>()
    }
}

use gc::Address;
use gc::worklist::{Worklist, WorklistSegment};

const SEG: usize = 1024;
const SLOTS: usize = 256;

static LOCK: AtomicBool = AtomicBool::new(false);
static mut LIVE: [usize; SLOTS] = [0; SLOTS];
static NULL_FREES: AtomicUsize = AtomicUsize::new(0);
static BOGUS_FREES: AtomicUsize = AtomicUsize::new(0);
static LAST_BOGUS: AtomicUsize = AtomicUsize::new(0);
static SEG_ALLOCS: AtomicUsize = AtomicUsize::new(0);
static SEG_FREES: AtomicUsize = AtomicUsize::new(0);

struct Checking;

fn lock() {
    while LOCK.swap(true, Ordering::Acquire) {}
}
fn unlock() {
    LOCK.store(false, Ordering::Release);
}

unsafe impl GlobalAlloc for Checking {
    unsafe fn alloc(&self, layout: Layout) -> *mut u8 {
        let p = unsafe { System.alloc(layout) };
        if layout.size() == SEG && !p.is_null() {
            lock();
            unsafe {
                let live = &mut *std::ptr::addr_of_mut!(LIVE);
                for s in live.iter_mut() {
                    if *s == 0 {
                        *s = p as usize;
                        break;
                    }
                }
            }
            unlock();
            SEG_ALLOCS.fetch_add(1, Ordering::Relaxed);
        }
        p
    }

    unsafe fn dealloc(&self, ptr: *mut u8, layout: Layout) {
        if layout.size() != SEG {
            unsafe { System.dealloc(ptr, layout) };
            return;
        }
        if ptr.is_null() {
            NULL_FREES.fetch_add(1, Ordering::Relaxed);
            return;
        }
        lock();
        let mut found = false;
        unsafe {
            let live = &mut *std::ptr::addr_of_mut!(LIVE);
            for s in live.iter_mut() {
                if *s == ptr as usize {
                    *s = 0;
                    found = true;
                    break;
                }
            }
        }
        unlock();
        if found {
            SEG_FREES.fetch_add(1, Ordering::Relaxed);
            // poison + quarantine (never handed back to the system allocator)
            unsafe { std::ptr::write_bytes(ptr, 0xAA, SEG) };
        } else {
            BOGUS_FREES.fetch_add(1, Ordering::Relaxed);
            LAST_BOGUS.store(ptr as usize, Ordering::Relaxed);
        }
    }
}

#[global_allocator]
static A: Checking = Checking;

fn live_segments() -> usize {
    lock();
    let n = unsafe { (*std::ptr::addr_of!(LIVE)).iter().filter(|&&s| s != 0).count() };
    unlock();
    n
}

fn segment_with(values: &[usize]) -> WorklistSegment {
    let mut seg = WorklistSegment::new();
    for &v in values {
        assert!(seg.push(Address::from(v)));
    }
    seg
}

// Scenario "clear1"/"clear3": a work list holding one / three segments is dropped.
// Expected: every segment freed exactly once, nothing else touched.
fn scenario_clear(segments: usize) -> bool {
    {
        let mut list = Worklist::new();
        for i in 0..segments {
            list.push_segment(segment_with(&[i + 1, i + 2, i + 3]));
        }
        assert_eq!(live_segments(), segments);
        // drop -> Worklist::clear()
    }

    let leaked = live_segments();
    let null_frees = NULL_FREES.load(Ordering::Relaxed);
    let bogus = BOGUS_FREES.load(Ordering::Relaxed);
    println!(
        "clear: segments allocated={} freed={} still-live(leaked)={} free(NULL)={} free(of a pointer that is not a live segment)={} last bogus pointer={:#x}",
        SEG_ALLOCS.load(Ordering::Relaxed),
        SEG_FREES.load(Ordering::Relaxed),
        leaked,
        null_frees,
        bogus,
        LAST_BOGUS.load(Ordering::Relaxed),
    );
    let bad = leaked != 0 || null_frees != 0 || bogus != 0;
    if bogus != 0 && LAST_BOGUS.load(Ordering::Relaxed) == 0xAAAA_AAAA_AAAA_AAAA {
        println!("clear: the bogus pointer is the poison pattern, i.e. the `next` field was read from a segment that had already been freed (use after free)");
    }
    bad
}

// Scenario "append": appending an EMPTY work list (a worker that found nothing hands
// over its empty list) to a non-empty one, then publishing one more segment.
// Expected: list holds both segments. Actual: `tail` was overwritten with null by
// append(), push_segment() writes through the null tail.
fn scenario_append() -> bool {
    let mut target = Worklist::new();
    target.push_segment(segment_with(&[1]));
    let mut empty = Worklist::new();
    target.append(&mut empty);
    println!("append: appended an empty list, now publishing another segment ...");
    target.push_segment(segment_with(&[2])); // null dereference here
    let mut n = 0;
    while let Some(_seg) = target.pop_segment() {
        n += 1;
    }
    println!("append: popped {} segments (expected 2)", n);
    std::mem::forget(target);
    n != 2
}

fn main() {
    let which = std::env::args().nth(1).unwrap_or_default();
    let bad = match which.as_str() {
        "clear1" => scenario_clear(1),
        "clear3" => scenario_clear(3),
        "append" => scenario_append(),
        _ => {
            eprintln!("usage: harness clear1|clear3|append");
            std::process::exit(2);
        }
    };
    std::process::exit(if bad { 1 } else { 0 });
}
