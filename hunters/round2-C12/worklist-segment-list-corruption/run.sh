#!/bin/bash
# Exits 1 when the bad behaviour of dora-runtime/src/gc/worklist.rs is observed on the
# unmodified file of the checkout $ROOT (default: two directories up), 0 otherwise.
HERE="$(cd "$(dirname "$0")" && pwd)"
ROOT="${ROOT:-$(cd "$HERE/../.." && pwd)}"
OUT="$(mktemp -d)"
trap 'rm -rf "$OUT"' EXIT

if [ ! -f "$ROOT/dora-runtime/src/gc/worklist.rs" ]; then
    echo "no worklist.rs under $ROOT" >&2
    exit 0
fi

# The harness include!()s the unmodified file; nothing of the checkout is changed or built.
if ! DORA_ROOT="$ROOT" rustc --edition 2024 -g -o "$OUT/harness" "$HERE/harness.rs" 2>"$OUT/build.log"; then
    echo "harness did not build:" >&2
    cat "$OUT/build.log" >&2
    exit 0
fi

bad=0
for scenario in clear1 clear3 append; do
    echo "--- scenario $scenario"
    RUST_BACKTRACE=0 "$OUT/harness" "$scenario" 2>&1 | grep -v '^$'
    rc=${PIPESTATUS[0]}
    echo "--- scenario $scenario: exit status $rc"
    if [ "$rc" -ne 0 ]; then
        bad=1
    fi
done

if [ "$bad" -ne 0 ]; then
    echo "DEFECT OBSERVED: the segment list of gc/worklist.rs leaks / frees the wrong segments / loses its tail"
    exit 1
fi
echo "no defect observed"
exit 0
