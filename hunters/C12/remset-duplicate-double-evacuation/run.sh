#!/bin/bash
# Exits 1 when the defect is observed on the unmodified checkout, 0 otherwise.
#
# ROOT      checkout to test (default: two directories up)
# ATTEMPTS  number of program runs (default 3); every run is 400 rounds of
#           "full collection, two threads store into the same old objects,
#           minor collection"
# WORKERS   --gc-worker value (default 1: the duplicate entries are then always
#           visited one after the other, so every duplicate is fatal)
HERE="$(cd "$(dirname "$0")" && pwd)"
ROOT="${ROOT:-$(cd "$HERE/../.." && pwd)}"
ATTEMPTS="${ATTEMPTS:-3}"
WORKERS="${WORKERS:-1}"

cd "$ROOT" || exit 2
CARGO_NET_OFFLINE=true cargo build --offline -p dora -p dora-runtime -p dora-startup >/dev/null 2>&1 || {
    echo "build failed"; exit 2;
}

WORK="$(mktemp -d)"
trap 'rm -rf "$WORK"' EXIT

"$ROOT/target/debug/dora" compile --cannon --gc=swiper "$HERE/dup.dora" -o "$WORK/dup" >"$WORK/compile.log" 2>&1
if [ ! -x "$WORK/dup" ]; then
    cat "$WORK/compile.log"; echo "compile failed"; exit 2
fi

for attempt in $(seq 1 "$ATTEMPTS"); do
    DORA_FLAGS="--gc-worker=$WORKERS --max-heap-size=64M" RUST_BACKTRACE=0 \
        timeout 1200 "$WORK/dup" >"$WORK/out.txt" 2>&1
    code=$?

    if [ $code -eq 0 ] && grep -q '^ok$' "$WORK/out.txt"; then
        echo "attempt $attempt: all rounds passed"
        continue
    fi

    echo "attempt $attempt: exit code $code"
    grep -m3 -A3 'panicked at\|IDENTITY SPLIT\|WRONG VALUE' "$WORK/out.txt"

    if grep -q 'mirror.rs.*\|IDENTITY SPLIT\|WRONG VALUE\|Thread pool worker panicked' "$WORK/out.txt" \
        || [ $code -eq 139 ] || [ $code -eq 134 ] || [ $code -eq 7 ]; then
        echo "DEFECT OBSERVED: a survivor was evacuated twice by one minor collection"
        exit 1
    fi

    echo "unexpected outcome (not counted)"; tail -5 "$WORK/out.txt"
done

echo "defect not observed"
exit 0
