//! Facade with the API subset of `parking_lot` that dora-runtime uses, implemented over
//! `shuttle::sync`, so that every lock, unlock, wait and notify is a scheduling point of
//! the simulator. parking_lot's contract "no spurious wake-ups" is kept (shuttle's Condvar
//! has none).

use std::ops::{Deref, DerefMut};

pub struct Mutex<T: ?Sized>(shuttle::sync::Mutex<T>);

pub struct MutexGuard<'a, T: ?Sized> {
    inner: Option<shuttle::sync::MutexGuard<'a, T>>,
}

impl<T> Mutex<T> {
    pub const fn new(v: T) -> Mutex<T> {
        Mutex(shuttle::sync::Mutex::new(v))
    }

    pub fn into_inner(self) -> T {
        match self.0.into_inner() {
            Ok(v) => v,
            Err(e) => e.into_inner(),
        }
    }
}

impl<T: ?Sized> Mutex<T> {
    pub fn lock(&self) -> MutexGuard<'_, T> {
        let g = match self.0.lock() {
            Ok(g) => g,
            Err(e) => e.into_inner(),
        };
        MutexGuard { inner: Some(g) }
    }

    pub fn try_lock(&self) -> Option<MutexGuard<'_, T>> {
        match self.0.try_lock() {
            Ok(g) => Some(MutexGuard { inner: Some(g) }),
            Err(std::sync::TryLockError::Poisoned(e)) => Some(MutexGuard { inner: Some(e.into_inner()) }),
            Err(std::sync::TryLockError::WouldBlock) => None,
        }
    }

    pub fn get_mut(&mut self) -> &mut T {
        match self.0.get_mut() {
            Ok(v) => v,
            Err(e) => e.into_inner(),
        }
    }
}

impl<T: Default> Default for Mutex<T> {
    fn default() -> Self {
        Mutex::new(T::default())
    }
}

impl<'a, T: ?Sized> Deref for MutexGuard<'a, T> {
    type Target = T;
    fn deref(&self) -> &T {
        self.inner.as_ref().unwrap()
    }
}

impl<'a, T: ?Sized> DerefMut for MutexGuard<'a, T> {
    fn deref_mut(&mut self) -> &mut T {
        self.inner.as_mut().unwrap()
    }
}

pub struct Condvar(shuttle::sync::Condvar);

impl Condvar {
    pub const fn new() -> Condvar {
        Condvar(shuttle::sync::Condvar::new())
    }

    pub fn wait<T>(&self, guard: &mut MutexGuard<'_, T>) {
        let g = guard.inner.take().unwrap();
        let g = match self.0.wait(g) {
            Ok(g) => g,
            Err(e) => e.into_inner(),
        };
        guard.inner = Some(g);
    }

    pub fn notify_one(&self) -> bool {
        self.0.notify_one();
        true
    }

    pub fn notify_all(&self) -> usize {
        self.0.notify_all();
        0
    }
}

impl Default for Condvar {
    fn default() -> Self {
        Condvar::new()
    }
}

pub struct RwLock<T: ?Sized>(shuttle::sync::RwLock<T>);

pub struct RwLockReadGuard<'a, T: ?Sized>(shuttle::sync::RwLockReadGuard<'a, T>);
pub struct RwLockWriteGuard<'a, T: ?Sized>(shuttle::sync::RwLockWriteGuard<'a, T>);

impl<T> RwLock<T> {
    pub const fn new(v: T) -> RwLock<T> {
        RwLock(shuttle::sync::RwLock::new(v))
    }

    pub fn into_inner(self) -> T {
        match self.0.into_inner() {
            Ok(v) => v,
            Err(e) => e.into_inner(),
        }
    }
}

impl<T: ?Sized> RwLock<T> {
    pub fn read(&self) -> RwLockReadGuard<'_, T> {
        match self.0.read() {
            Ok(g) => RwLockReadGuard(g),
            Err(e) => RwLockReadGuard(e.into_inner()),
        }
    }

    pub fn write(&self) -> RwLockWriteGuard<'_, T> {
        match self.0.write() {
            Ok(g) => RwLockWriteGuard(g),
            Err(e) => RwLockWriteGuard(e.into_inner()),
        }
    }

    pub fn try_read(&self) -> Option<RwLockReadGuard<'_, T>> {
        match self.0.try_read() {
            Ok(g) => Some(RwLockReadGuard(g)),
            Err(std::sync::TryLockError::Poisoned(e)) => Some(RwLockReadGuard(e.into_inner())),
            Err(std::sync::TryLockError::WouldBlock) => None,
        }
    }

    pub fn try_write(&self) -> Option<RwLockWriteGuard<'_, T>> {
        match self.0.try_write() {
            Ok(g) => Some(RwLockWriteGuard(g)),
            Err(std::sync::TryLockError::Poisoned(e)) => Some(RwLockWriteGuard(e.into_inner())),
            Err(std::sync::TryLockError::WouldBlock) => None,
        }
    }
}

impl<T: Default> Default for RwLock<T> {
    fn default() -> Self {
        RwLock::new(T::default())
    }
}

impl<'a, T: ?Sized> Deref for RwLockReadGuard<'a, T> {
    type Target = T;
    fn deref(&self) -> &T {
        &self.0
    }
}

impl<'a, T: ?Sized> Deref for RwLockWriteGuard<'a, T> {
    type Target = T;
    fn deref(&self) -> &T {
        &self.0
    }
}

impl<'a, T: ?Sized> DerefMut for RwLockWriteGuard<'a, T> {
    fn deref_mut(&mut self) -> &mut T {
        &mut self.0
    }
}
