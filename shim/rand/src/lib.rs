//! Facade for the tiny part of `rand` that dora-runtime uses (random steal victim): draws
//! come from the simulator's data stream, so steal order is a function of the seed.

pub struct SimRng;

pub fn rng() -> SimRng {
    SimRng
}

pub mod distr {
    pub mod uniform {
        use crate::SimRng;

        #[derive(Debug)]
        pub struct Error;

        pub trait UniformSampler: Sized {
            type X;
            fn new(low: Self::X, high: Self::X) -> Result<Self, Error>;
            fn sample(&self, rng: &mut SimRng) -> Self::X;
        }

        pub struct UniformUsize {
            low: usize,
            span: usize,
        }

        impl UniformSampler for UniformUsize {
            type X = usize;

            fn new(low: usize, high: usize) -> Result<Self, Error> {
                if high <= low {
                    return Err(Error);
                }
                Ok(UniformUsize { low, span: high - low })
            }

            fn sample(&self, _rng: &mut SimRng) -> usize {
                self.low + (verif_rt::data_u64() % self.span as u64) as usize
            }
        }
    }
}
