//! Facade for `scoped_threadpool`: N persistent worker tasks of the simulator take jobs from
//! a shared queue (simulator mutex + condvar), `scoped` returns when every job submitted in
//! the scope has finished, dropping the pool stops and joins the workers - the structure of
//! the original crate, with every hand-over a scheduling point.

use shuttle::sync::{Condvar, Mutex};
use std::collections::VecDeque;
use std::marker::PhantomData;
use std::sync::Arc;

type Job = Box<dyn FnOnce() + Send + 'static>;

enum Msg {
    Run(Job),
    Stop,
}

struct Shared {
    queue: Mutex<VecDeque<Msg>>,
    available: Condvar,
    pending: Mutex<usize>,
    all_done: Condvar,
}

pub struct Pool {
    n: u32,
    shared: Arc<Shared>,
    handles: Vec<shuttle::thread::JoinHandle<()>>,
}

impl Pool {
    pub fn new(n: u32) -> Pool {
        assert!(n >= 1);
        let shared = Arc::new(Shared {
            queue: Mutex::new(VecDeque::new()),
            available: Condvar::new(),
            pending: Mutex::new(0),
            all_done: Condvar::new(),
        });
        let mut handles = Vec::new();
        for _ in 0..n {
            let shared = shared.clone();
            handles.push(shuttle::thread::spawn(move || loop {
                let msg = {
                    let mut q = shared.queue.lock().unwrap();
                    loop {
                        if let Some(m) = q.pop_front() {
                            break m;
                        }
                        q = shared.available.wait(q).unwrap();
                    }
                };
                match msg {
                    Msg::Stop => break,
                    Msg::Run(job) => {
                        job();
                        let mut p = shared.pending.lock().unwrap();
                        *p -= 1;
                        if *p == 0 {
                            shared.all_done.notify_all();
                        }
                    }
                }
            }));
        }
        Pool { n, shared, handles }
    }

    pub fn thread_count(&self) -> u32 {
        self.n
    }

    pub fn scoped<'pool, 'scope, F, R>(&'pool mut self, f: F) -> R
    where
        F: FnOnce(&Scope<'pool, 'scope>) -> R,
    {
        let scope = Scope { pool: self, _p: PhantomData };
        let r = f(&scope);
        scope.join_all();
        r
    }
}

impl Drop for Pool {
    fn drop(&mut self) {
        if !verif_rt::is_active() {
            return;
        }
        {
            let mut q = self.shared.queue.lock().unwrap();
            for _ in 0..self.n {
                q.push_back(Msg::Stop);
            }
        }
        self.shared.available.notify_all();
        for h in self.handles.drain(..) {
            let _ = h.join();
        }
    }
}

pub struct Scope<'pool, 'scope> {
    pool: &'pool mut Pool,
    _p: PhantomData<&'scope ()>,
}

impl<'pool, 'scope> Scope<'pool, 'scope> {
    pub fn execute<F>(&self, f: F)
    where
        F: FnOnce() + Send + 'scope,
    {
        // SAFETY: `scoped` joins every job before returning, and 'scope outlives that call;
        // the transmute only erases the lifetime (the original crate does the same).
        let job: Box<dyn FnOnce() + Send + 'scope> = Box::new(f);
        let job: Job = unsafe { std::mem::transmute(job) };
        *self.pool.shared.pending.lock().unwrap() += 1;
        self.pool.shared.queue.lock().unwrap().push_back(Msg::Run(job));
        self.pool.shared.available.notify_one();
    }

    pub fn join_all(&self) {
        let mut p = self.pool.shared.pending.lock().unwrap();
        while *p > 0 {
            p = self.pool.shared.all_done.wait(p).unwrap();
        }
    }
}
