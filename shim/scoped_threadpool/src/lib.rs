//! Facade for `scoped_threadpool`: every job of a scope becomes its own simulator task
//! (shuttle scoped thread); `scoped` returns when all jobs have finished, like the original.
//! The original keeps N OS threads alive and hands jobs to them over a channel; for the
//! callers in dora-runtime (exactly N jobs per scope, one per worker) the two are
//! indistinguishable except that job->thread assignment does not exist here.

use std::marker::PhantomData;

pub struct Pool {
    n: u32,
}

impl Pool {
    pub fn new(n: u32) -> Pool {
        assert!(n >= 1);
        Pool { n }
    }

    pub fn thread_count(&self) -> u32 {
        self.n
    }

    pub fn scoped<'pool, 'scope, F, R>(&'pool mut self, f: F) -> R
    where
        F: FnOnce(&Scope<'pool, 'scope>) -> R,
    {
        let scope = Scope { jobs: std::cell::RefCell::new(Vec::new()), _p: PhantomData };
        let r = f(&scope);
        scope.join_all();
        r
    }
}

type Job<'scope> = Box<dyn FnOnce() + Send + 'scope>;

pub struct Scope<'pool, 'scope> {
    jobs: std::cell::RefCell<Vec<Job<'scope>>>,
    _p: PhantomData<&'pool mut Pool>,
}

impl<'pool, 'scope> Scope<'pool, 'scope> {
    pub fn execute<F>(&self, f: F)
    where
        F: FnOnce() + Send + 'scope,
    {
        self.jobs.borrow_mut().push(Box::new(f));
    }

    pub fn join_all(&self) {
        let jobs: Vec<Job<'scope>> = std::mem::take(&mut *self.jobs.borrow_mut());
        if jobs.is_empty() {
            return;
        }
        shuttle::thread::scope(|s| {
            for job in jobs {
                // SAFETY: the scope joins every task before returning, and 'scope outlives
                // this call; the transmute only erases the lifetime for shuttle's signature.
                let job: Box<dyn FnOnce() + Send + 'static> = unsafe { std::mem::transmute(job) };
                s.spawn(move || job());
            }
        });
    }
}
