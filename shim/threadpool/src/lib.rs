//! Facade for `threadpool`: N persistent worker tasks of the simulator take jobs from a
//! shared queue; `execute` enqueues and returns. Dropping the pool lets the workers drain
//! the queue and stop, like closing the original's channel.

use shuttle::sync::{Condvar, Mutex};
use std::collections::VecDeque;
use std::sync::Arc;

type Job = Box<dyn FnOnce() + Send + 'static>;

struct Shared {
    queue: Mutex<(VecDeque<Job>, bool)>,
    available: Condvar,
}

pub struct ThreadPool {
    n: usize,
    shared: Arc<Shared>,
}

impl ThreadPool {
    pub fn new(n: usize) -> ThreadPool {
        assert!(n >= 1);
        let shared = Arc::new(Shared { queue: Mutex::new((VecDeque::new(), false)), available: Condvar::new() });
        for _ in 0..n {
            let shared = shared.clone();
            shuttle::thread::spawn(move || loop {
                let job = {
                    let mut q = shared.queue.lock().unwrap();
                    loop {
                        if let Some(j) = q.0.pop_front() {
                            break Some(j);
                        }
                        if q.1 {
                            break None;
                        }
                        q = shared.available.wait(q).unwrap();
                    }
                };
                match job {
                    Some(job) => job(),
                    None => break,
                }
            });
        }
        ThreadPool { n, shared }
    }

    pub fn max_count(&self) -> usize {
        self.n
    }

    pub fn execute<F>(&self, job: F)
    where
        F: FnOnce() + Send + 'static,
    {
        self.shared.queue.lock().unwrap().0.push_back(Box::new(job));
        self.shared.available.notify_one();
    }
}

impl Drop for ThreadPool {
    fn drop(&mut self) {
        if !verif_rt::is_active() {
            return;
        }
        self.shared.queue.lock().unwrap().1 = true;
        self.shared.available.notify_all();
    }
}
