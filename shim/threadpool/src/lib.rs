//! Facade for `threadpool`: `execute` spawns a detached simulator task per job. The
//! original multiplexes jobs over N OS threads; dora-runtime submits at most N jobs at a
//! time (one sweep task per worker), so concurrency is the same.

pub struct ThreadPool {
    n: usize,
}

impl ThreadPool {
    pub fn new(n: usize) -> ThreadPool {
        assert!(n >= 1);
        ThreadPool { n }
    }

    pub fn max_count(&self) -> usize {
        self.n
    }

    pub fn execute<F>(&self, job: F)
    where
        F: FnOnce() + Send + 'static,
    {
        shuttle::thread::spawn(job);
    }
}
