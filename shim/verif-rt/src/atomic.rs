//! `#[repr(transparent)]` wrappers around the std atomics. Layout is identical to std's
//! (compiled Dora code reads some of these words at fixed offsets); every operation first
//! executes a scheduling point, then the real operation. The simulation runs on one OS
//! thread, so "scheduling point, then operation" is one indivisible step of the task.

pub use std::sync::atomic::Ordering;

macro_rules! int_atomic {
    ($name:ident, $std:ident, $ty:ty, $point:path, $loadpoint:path) => {
        #[repr(transparent)]
        #[derive(Debug, Default)]
        pub struct $name(std::sync::atomic::$std);

        impl $name {
            #[inline]
            pub const fn new(v: $ty) -> Self {
                Self(std::sync::atomic::$std::new(v))
            }
            #[inline]
            pub fn load(&self, o: Ordering) -> $ty {
                $loadpoint();
                self.0.load(o)
            }
            /// Load without a scheduling point (monitors / logging only).
            #[inline]
            pub fn peek(&self) -> $ty {
                self.0.load(Ordering::Relaxed)
            }
            #[inline]
            pub fn store(&self, v: $ty, o: Ordering) {
                $point();
                self.0.store(v, o)
            }
            #[inline]
            pub fn swap(&self, v: $ty, o: Ordering) -> $ty {
                $point();
                self.0.swap(v, o)
            }
            #[inline]
            pub fn compare_exchange(&self, c: $ty, n: $ty, s: Ordering, f: Ordering) -> Result<$ty, $ty> {
                $point();
                self.0.compare_exchange(c, n, s, f)
            }
            #[inline]
            pub fn compare_exchange_weak(&self, c: $ty, n: $ty, s: Ordering, f: Ordering) -> Result<$ty, $ty> {
                $point();
                self.0.compare_exchange(c, n, s, f)
            }
            #[inline]
            pub fn fetch_add(&self, v: $ty, o: Ordering) -> $ty {
                $point();
                self.0.fetch_add(v, o)
            }
            #[inline]
            pub fn fetch_sub(&self, v: $ty, o: Ordering) -> $ty {
                $point();
                self.0.fetch_sub(v, o)
            }
            #[inline]
            pub fn fetch_or(&self, v: $ty, o: Ordering) -> $ty {
                $point();
                self.0.fetch_or(v, o)
            }
            #[inline]
            pub fn fetch_and(&self, v: $ty, o: Ordering) -> $ty {
                $point();
                self.0.fetch_and(v, o)
            }
            #[inline]
            pub fn get_mut(&mut self) -> &mut $ty {
                self.0.get_mut()
            }
            #[inline]
            pub fn into_inner(self) -> $ty {
                self.0.into_inner()
            }
        }
    };
}

macro_rules! bool_atomic {
    ($name:ident, $point:path, $loadpoint:path) => {
        #[repr(transparent)]
        #[derive(Debug, Default)]
        pub struct $name(std::sync::atomic::AtomicBool);

        impl $name {
            #[inline]
            pub const fn new(v: bool) -> Self {
                Self(std::sync::atomic::AtomicBool::new(v))
            }
            #[inline]
            pub fn load(&self, o: Ordering) -> bool {
                $loadpoint();
                self.0.load(o)
            }
            #[inline]
            pub fn peek(&self) -> bool {
                self.0.load(Ordering::Relaxed)
            }
            #[inline]
            pub fn store(&self, v: bool, o: Ordering) {
                $point();
                self.0.store(v, o)
            }
            #[inline]
            pub fn swap(&self, v: bool, o: Ordering) -> bool {
                $point();
                self.0.swap(v, o)
            }
            #[inline]
            pub fn compare_exchange(&self, c: bool, n: bool, s: Ordering, f: Ordering) -> Result<bool, bool> {
                $point();
                self.0.compare_exchange(c, n, s, f)
            }
        }
    };
}

int_atomic!(AtomicU8, AtomicU8, u8, crate::sched_point, crate::sched_point);
int_atomic!(AtomicI32, AtomicI32, i32, crate::sched_point, crate::sched_point);
int_atomic!(AtomicU32, AtomicU32, u32, crate::sched_point, crate::sched_point);
int_atomic!(AtomicU64, AtomicU64, u64, crate::sched_point, crate::sched_point);
int_atomic!(AtomicUsize, AtomicUsize, usize, crate::sched_point, crate::sched_point);
bool_atomic!(AtomicBool, crate::sched_point, crate::sched_point);

/// Thinned variants for words touched once per object (header words): stores and
/// read-modify-writes are thinned scheduling points, plain loads are not points at all
/// (a switch right before a load is covered by the switch before the preceding write).
pub mod hot {
    pub use std::sync::atomic::Ordering;
    int_atomic!(AtomicU8, AtomicU8, u8, crate::sched_point_hot, crate::no_point);
    int_atomic!(AtomicU32, AtomicU32, u32, crate::sched_point_hot, crate::no_point);
    int_atomic!(AtomicU64, AtomicU64, u64, crate::sched_point_hot, crate::no_point);
    int_atomic!(AtomicUsize, AtomicUsize, usize, crate::sched_point_hot, crate::no_point);
    bool_atomic!(AtomicBool, crate::sched_point_hot, crate::no_point);
}
