//! splitmix64-seeded xoshiro256**; streams are derived from (seed, name) by hashing.

#[derive(Clone, Debug)]
pub struct Prng {
    s: [u64; 4],
}

pub fn splitmix(x: &mut u64) -> u64 {
    *x = x.wrapping_add(0x9e37_79b9_7f4a_7c15);
    let mut z = *x;
    z = (z ^ (z >> 30)).wrapping_mul(0xbf58_476d_1ce4_e5b9);
    z = (z ^ (z >> 27)).wrapping_mul(0x94d0_49bb_1331_11eb);
    z ^ (z >> 31)
}

/// FNV-1a over the stream name, mixed with the seed: independent streams per purpose.
pub fn derive(seed: u64, name: &str, index: u64) -> u64 {
    let mut h: u64 = 0xcbf2_9ce4_8422_2325;
    for b in name.bytes() {
        h ^= b as u64;
        h = h.wrapping_mul(0x0000_0100_0000_01b3);
    }
    let mut x = seed ^ h.rotate_left(17) ^ index.wrapping_mul(0xd6e8_feb8_6659_fd93);
    splitmix(&mut x)
}

impl Prng {
    pub fn new(seed: u64) -> Prng {
        let mut x = seed;
        let s = [splitmix(&mut x), splitmix(&mut x), splitmix(&mut x), splitmix(&mut x)];
        Prng { s }
    }

    pub fn stream(seed: u64, name: &str, index: u64) -> Prng {
        Prng::new(derive(seed, name, index))
    }

    pub fn next_u64(&mut self) -> u64 {
        let r = self.s[1].wrapping_mul(5).rotate_left(7).wrapping_mul(9);
        let t = self.s[1] << 17;
        self.s[2] ^= self.s[0];
        self.s[3] ^= self.s[1];
        self.s[1] ^= self.s[2];
        self.s[0] ^= self.s[3];
        self.s[2] ^= t;
        self.s[3] = self.s[3].rotate_left(45);
        r
    }

    /// uniform in 0..n (n > 0)
    pub fn below(&mut self, n: u64) -> u64 {
        debug_assert!(n > 0);
        // multiply-shift; bias is irrelevant here
        ((self.next_u64() as u128 * n as u128) >> 64) as u64
    }

    pub fn range(&mut self, lo: u64, hi_incl: u64) -> u64 {
        lo + self.below(hi_incl - lo + 1)
    }

    /// true with probability num/den
    pub fn chance(&mut self, num: u64, den: u64) -> bool {
        self.below(den) < num
    }

    pub fn pick<'a, T>(&mut self, xs: &'a [T]) -> &'a T {
        &xs[self.below(xs.len() as u64) as usize]
    }
}
