//! The seeded scheduler. One `ExecSpec` (seed + policy + optional recorded decisions) is
//! one exactly repeatable execution. Decisions are recorded into a shared `ExecRecord`
//! that the harness reads after the execution (and writes into replay files).

use crate::prng::Prng;
use shuttle::scheduler::{Schedule, Scheduler, Task, TaskId};
use std::sync::{Arc, Mutex};

#[derive(Clone, Debug, PartialEq)]
pub enum Policy {
    /// uniform choice among runnable tasks at every step
    Random,
    /// stay on the current task with probability stay/256, otherwise uniform
    Sticky { stay: u32 },
    /// strict random priorities with `depth-1` priority change points placed in 0..est_steps
    Pct { depth: u32, est_steps: u32 },
    /// `victim` (task id) only runs when nothing else can: the "stalled node" fault;
    /// the others are scheduled sticky-random
    Starve { victim: u32, stay: u32 },
    /// run the current task as long as it is runnable, otherwise lowest id (no preemption)
    RunToBlock,
}

impl Policy {
    pub fn describe(&self) -> String {
        match self {
            Policy::Random => "random".into(),
            Policy::Sticky { stay } => format!("sticky:{}", stay),
            Policy::Pct { depth, est_steps } => format!("pct:{}:{}", depth, est_steps),
            Policy::Starve { victim, stay } => format!("starve:{}:{}", victim, stay),
            Policy::RunToBlock => "runtoblock".into(),
        }
    }

    pub fn parse(s: &str) -> Option<Policy> {
        let p: Vec<&str> = s.split(':').collect();
        match p[0] {
            "random" => Some(Policy::Random),
            "sticky" => Some(Policy::Sticky { stay: p.get(1)?.parse().ok()? }),
            "pct" => Some(Policy::Pct { depth: p.get(1)?.parse().ok()?, est_steps: p.get(2)?.parse().ok()? }),
            "starve" => Some(Policy::Starve { victim: p.get(1)?.parse().ok()?, stay: p.get(2)?.parse().ok()? }),
            "runtoblock" => Some(Policy::RunToBlock),
            _ => None,
        }
    }

    /// Draw a policy for one run (swarm style) from the configuration stream.
    pub fn draw(rng: &mut Prng, max_tasks: u32, est_steps: u32) -> Policy {
        match rng.below(10) {
            0 | 1 | 2 => Policy::Random,
            3 | 4 => Policy::Sticky { stay: *rng.pick(&[128u32, 192, 230, 250]) },
            5 | 6 | 7 => Policy::Pct { depth: rng.range(1, 5) as u32, est_steps: est_steps.max(2) },
            8 => Policy::Starve { victim: rng.below(max_tasks.max(1) as u64) as u32, stay: *rng.pick(&[0u32, 128, 230]) },
            _ => Policy::Sticky { stay: 252 },
        }
    }
}

#[derive(Clone, Debug)]
pub struct ExecSpec {
    pub seed: u64,
    pub policy: Policy,
    /// recorded decisions to follow while they stay valid (replay / schedule shrinking)
    pub replay: Option<Vec<u16>>,
}

#[derive(Clone, Debug, Default)]
pub struct ExecRecord {
    /// chosen task id at every scheduling decision
    pub decisions: Vec<u16>,
    /// number of decisions with more than one runnable task
    pub choice_points: u64,
    /// decisions where the current task was runnable but another one was chosen
    pub preemptions: u64,
    /// decision indices at which the replayed list could not be followed
    pub diverged_at: Option<usize>,
    /// largest task id seen
    pub max_task: u32,
    /// FNV-1a over (runnable count, chosen) of all choice points
    pub hash: u64,
    pub keep_decisions: bool,
}

impl ExecRecord {
    fn reset(&mut self, keep: bool) {
        self.decisions.clear();
        self.choice_points = 0;
        self.preemptions = 0;
        self.diverged_at = None;
        self.max_task = 0;
        self.hash = 0xcbf2_9ce4_8422_2325;
        self.keep_decisions = keep;
    }
}

pub type SharedRecord = Arc<Mutex<ExecRecord>>;

pub struct SimScheduler {
    next_spec: Box<dyn FnMut() -> Option<ExecSpec> + Send>,
    record: SharedRecord,
    keep_decisions: bool,

    policy: Policy,
    rng: Prng,
    data: Prng,
    replay: Option<Vec<u16>>,
    step: usize,
    choice_step: u32,
    // pct
    prio: Vec<u64>, // by task id; lower value = runs first
    next_low: u64,
    change_points: Vec<u32>,
}

impl SimScheduler {
    pub fn new(next_spec: Box<dyn FnMut() -> Option<ExecSpec> + Send>, record: SharedRecord, keep_decisions: bool) -> SimScheduler {
        SimScheduler {
            next_spec,
            record,
            keep_decisions,
            policy: Policy::Random,
            rng: Prng::new(0),
            data: Prng::new(0),
            replay: None,
            step: 0,
            choice_step: 0,
            prio: Vec::new(),
            next_low: 1 << 32,
            change_points: Vec::new(),
        }
    }

    /// Scheduler for exactly one execution.
    pub fn single(spec: ExecSpec, record: SharedRecord, keep_decisions: bool) -> SimScheduler {
        let mut spec = Some(spec);
        SimScheduler::new(Box::new(move || spec.take()), record, keep_decisions)
    }

    fn prio_of(&mut self, id: usize) -> u64 {
        while self.prio.len() <= id {
            // random initial priority in the "high" band
            let p = self.rng.below(1 << 31);
            self.prio.push(p);
        }
        self.prio[id]
    }

    fn choose(&mut self, ids: &[usize], current: Option<usize>) -> usize {
        let cur_runnable = current.map(|c| ids.contains(&c)).unwrap_or(false);
        match self.policy.clone() {
            Policy::Random => ids[self.rng.below(ids.len() as u64) as usize],
            Policy::Sticky { stay } => {
                if cur_runnable && self.rng.below(256) < stay as u64 {
                    current.unwrap()
                } else {
                    ids[self.rng.below(ids.len() as u64) as usize]
                }
            }
            Policy::Starve { victim, stay } => {
                let others: Vec<usize> = ids.iter().copied().filter(|&i| i != victim as usize).collect();
                if others.is_empty() {
                    return ids[0];
                }
                if cur_runnable && current != Some(victim as usize) && self.rng.below(256) < stay as u64 {
                    current.unwrap()
                } else {
                    others[self.rng.below(others.len() as u64) as usize]
                }
            }
            Policy::Pct { .. } => {
                if self.change_points.contains(&self.choice_step) {
                    if let Some(c) = current {
                        self.prio_of(c);
                        self.prio[c] = self.next_low;
                        self.next_low += 1;
                    }
                }
                let mut best = ids[0];
                let mut bestp = u64::MAX;
                for &i in ids {
                    let p = self.prio_of(i);
                    if p < bestp {
                        bestp = p;
                        best = i;
                    }
                }
                best
            }
            Policy::RunToBlock => {
                if cur_runnable {
                    current.unwrap()
                } else {
                    *ids.iter().min().unwrap()
                }
            }
        }
    }
}

impl Scheduler for SimScheduler {
    fn new_execution(&mut self) -> Option<Schedule> {
        let spec = (self.next_spec)()?;
        self.policy = spec.policy.clone();
        self.rng = Prng::stream(spec.seed, "schedule", 0);
        self.data = Prng::stream(spec.seed, "data", 0);
        self.replay = spec.replay;
        self.step = 0;
        self.choice_step = 0;
        self.prio.clear();
        self.next_low = 1 << 32;
        self.change_points.clear();
        if let Policy::Pct { depth, est_steps } = self.policy {
            for _ in 1..depth {
                let cp = self.rng.below(est_steps.max(1) as u64) as u32;
                self.change_points.push(cp);
            }
        }
        self.record.lock().unwrap().reset(self.keep_decisions);
        Some(Schedule::new(spec.seed))
    }

    fn next_task(&mut self, runnable: &[&Task], current: Option<TaskId>, _is_yielding: bool) -> Option<TaskId> {
        let ids: Vec<usize> = runnable.iter().map(|t| usize::from(t.id())).collect();
        let cur = current.map(usize::from);
        let mut chosen = None;
        let mut diverged = false;
        if let Some(list) = &self.replay {
            if let Some(&want) = list.get(self.step) {
                if ids.contains(&(want as usize)) {
                    chosen = Some(want as usize);
                } else {
                    diverged = true;
                }
            }
        }
        let was_choice = ids.len() > 1;
        let chosen = match chosen {
            Some(c) => {
                // keep the policy stream aligned as far as possible: do not draw
                c
            }
            None => {
                if was_choice {
                    self.choose(&ids, cur)
                } else {
                    ids[0]
                }
            }
        };
        {
            let mut r = self.record.lock().unwrap();
            if diverged && r.diverged_at.is_none() {
                r.diverged_at = Some(self.step);
            }
            if r.keep_decisions {
                r.decisions.push(chosen as u16);
            }
            if was_choice {
                r.choice_points += 1;
                r.hash = (r.hash ^ ((ids.len() as u64) << 16 | chosen as u64)).wrapping_mul(0x0000_0100_0000_01b3);
                if let Some(c) = cur {
                    if c != chosen && ids.contains(&c) {
                        r.preemptions += 1;
                    }
                }
            }
            let m = *ids.iter().max().unwrap() as u32;
            if m > r.max_task {
                r.max_task = m;
            }
        }
        self.step += 1;
        if was_choice {
            self.choice_step += 1;
        }
        Some(TaskId::from(chosen))
    }

    fn next_u64(&mut self) -> u64 {
        self.data.next_u64()
    }
}

/// Default shuttle configuration for simulated executions.
pub fn config(stack_size: usize, max_steps: Option<usize>) -> shuttle::Config {
    let mut c = shuttle::Config::new();
    c.stack_size = stack_size;
    c.failure_persistence = shuttle::FailurePersistence::None;
    c.max_steps = match max_steps {
        Some(n) => shuttle::MaxSteps::FailAfter(n),
        None => shuttle::MaxSteps::None,
    };
    c.silence_warnings = true;
    c
}
