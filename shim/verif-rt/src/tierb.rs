//! Whole-executable simulation (Tier B): the linked Dora executable runs as the root task of
//! exactly one simulated execution. Configuration comes from the environment variable
//! VERIF_SIM ("key=value,key=value"); statistics go to the file named by `stats=`.
//!
//!   seed=<u64>            one integer decides schedule, steal victims and faults
//!   policy=<policy>       see sched::Policy::parse (random | sticky:N | pct:D:E | starve:V:S | runtoblock)
//!   hot=<0..65536>        thinning rate of header-word scheduling points
//!   hotsweep=<0..65536>   the same while the concurrent sweeper is running (default: hot)
//!   pminor,pfull,pfail    per-65536 probability of an injected minor GC / full GC /
//!                         one-shot allocation failure at each Gc::alloc
//!   burst=<n>             maximum burst length of injected allocation faults
//!   faults=o:k;o:k        explicit fault list (allocation ordinal : m|f|x), disables drawing
//!   record=1              record fired faults in the stats file
//!   stack=<bytes>         coroutine stack size (default 4 MiB)
//!   maxsteps=<n>          scheduler step budget (default 50M)
//!   stats=<path>          where to write the statistics (one JSON object)

use crate::fault::{self, AllocFault};
use crate::sched::{self, ExecRecord, ExecSpec, Policy, SharedRecord, SimScheduler};
use std::io::Write;
use std::sync::atomic::{AtomicBool, Ordering};
use std::sync::{Arc, Mutex};

static RECORD: Mutex<Option<SharedRecord>> = Mutex::new(None);
static STATS_PATH: Mutex<Option<String>> = Mutex::new(None);
static WRITTEN: AtomicBool = AtomicBool::new(false);
static OUTCOME: Mutex<String> = Mutex::new(String::new());

fn cfg_map() -> std::collections::HashMap<String, String> {
    let mut m = std::collections::HashMap::new();
    if let Ok(s) = std::env::var("VERIF_SIM") {
        for kv in s.split(',') {
            if let Some((k, v)) = kv.split_once('=') {
                m.insert(k.trim().to_string(), v.trim().to_string());
            }
        }
    }
    m
}

fn json_escape(s: &str) -> String {
    let mut o = String::new();
    for c in s.chars() {
        match c {
            '"' => o.push_str("\\\""),
            '\\' => o.push_str("\\\\"),
            '\n' => o.push_str("\\n"),
            c if (c as u32) < 0x20 => o.push_str(&format!("\\u{:04x}", c as u32)),
            c => o.push(c),
        }
    }
    o
}

/// Write the statistics file once; callable from exit paths (`_exit` in trap, atexit).
pub fn write_stats(outcome: &str) {
    if WRITTEN.swap(true, Ordering::SeqCst) {
        return;
    }
    crate::set_active(false);
    let path = match STATS_PATH.lock().unwrap().clone() {
        Some(p) => p,
        None => return,
    };
    let rec: ExecRecord = RECORD
        .lock()
        .unwrap()
        .as_ref()
        .map(|r| r.try_lock().map(|g| g.clone()).unwrap_or_default())
        .unwrap_or_default();
    let fired = fault::fired_list();
    let fired_s: Vec<String> = fired
        .iter()
        .map(|(o, k)| {
            format!(
                "\"{}:{}\"",
                o,
                match k {
                    AllocFault::MinorGc => "m",
                    AllocFault::FullGc => "f",
                    AllocFault::FailOnce => "x",
                    AllocFault::None => "-",
                }
            )
        })
        .collect();
    let probes: Vec<String> = crate::monitor::probe_snapshot().iter().map(|p| p.to_string()).collect();
    let mut out = OUTCOME.lock().map(|g| g.clone()).unwrap_or_default();
    if out.is_empty() {
        out = outcome.to_string();
    }
    let text = format!(
        "{{\"outcome\":\"{}\",\"decisions\":{},\"choice_points\":{},\"preemptions\":{},\"trace_hash\":\"{:016x}\",\"max_task\":{},\"points\":{},\"hot_points\":{},\"hot_taken\":{},\"allocs\":{},\"gc_minor_injected\":{},\"gc_full_injected\":{},\"alloc_fail_injected\":{},\"stw_operations\":{},\"sweeps\":{},\"oom_heap\":[{},{},{}],\"probes\":[{}],\"fired\":[{}]}}\n",
        json_escape(&out),
        rec.decisions.len().max(rec.choice_points as usize),
        rec.choice_points,
        rec.preemptions,
        rec.hash,
        rec.max_task,
        crate::STAT_POINTS.load(Ordering::Relaxed),
        crate::STAT_HOT_POINTS.load(Ordering::Relaxed),
        crate::STAT_HOT_TAKEN.load(Ordering::Relaxed),
        fault::ALLOC_ORDINAL.load(Ordering::Relaxed),
        fault::FIRED_MINOR.load(Ordering::Relaxed),
        fault::FIRED_FULL.load(Ordering::Relaxed),
        fault::FIRED_FAIL.load(Ordering::Relaxed),
        crate::monitor::STW_COUNT.load(Ordering::Relaxed),
        crate::monitor::SWEEPS.load(Ordering::Relaxed),
        crate::monitor::OOM_HEAP[0].load(Ordering::Relaxed),
        crate::monitor::OOM_HEAP[1].load(Ordering::Relaxed),
        crate::monitor::OOM_HEAP[2].load(Ordering::Relaxed),
        probes.join(","),
        fired_s.join(",")
    );
    if let Ok(mut f) = std::fs::File::create(&path) {
        let _ = f.write_all(text.as_bytes());
    }
}

extern "C" fn at_exit() {
    write_stats("exit");
}

/// Hook for exit paths that bypass atexit (`libc::_exit` in the trap handler).
pub fn before_exit(kind: &str) {
    write_stats(kind);
}

pub fn run_root<F>(f: F) -> i32
where
    F: Fn() -> i32 + Send + Sync + 'static,
{
    let cfg = cfg_map();
    let get = |k: &str, d: u64| -> u64 { cfg.get(k).and_then(|v| v.parse().ok()).unwrap_or(d) };
    let seed = get("seed", 1);
    let policy = cfg.get("policy").and_then(|p| Policy::parse(p)).unwrap_or(Policy::Random);
    crate::set_hot_rate(get("hot", 0), crate::prng::derive(seed, "hot", 0));
    crate::set_hot_rate_sweep(get("hotsweep", get("hot", 0)));
    crate::seed_data(seed);
    let explicit = cfg.get("faults").map(|s| {
        s.split(';')
            .filter_map(|e| {
                let (o, k) = e.split_once(':')?;
                let k = match k {
                    "m" => AllocFault::MinorGc,
                    "f" => AllocFault::FullGc,
                    "x" => AllocFault::FailOnce,
                    _ => return None,
                };
                Some((o.parse().ok()?, k))
            })
            .collect::<Vec<_>>()
    });
    fault::configure(seed, get("pminor", 0), get("pfull", 0), get("pfail", 0), get("burst", 0), explicit, get("record", 0) != 0);
    if let Some(list) = cfg.get("nomonitor") {
        for name in list.split('+') {
            crate::monitor::disable(name);
        }
    }
    *STATS_PATH.lock().unwrap() = cfg.get("stats").cloned();
    unsafe {
        libc::atexit(at_exit);
    }

    let record: SharedRecord = Arc::new(Mutex::new(ExecRecord::default()));
    *RECORD.lock().unwrap() = Some(record.clone());
    let spec = ExecSpec { seed, policy, replay: None };
    let sched = SimScheduler::single(spec, record, false);
    let maxsteps = get("maxsteps", 50_000_000) as usize;
    let runner = shuttle::Runner::new(sched, sched::config(get("stack", 4 << 20) as usize, Some(maxsteps)));
    let result = Arc::new(Mutex::new(0i32));
    let r2 = result.clone();
    let res = std::panic::catch_unwind(std::panic::AssertUnwindSafe(move || {
        runner.run(move || {
            crate::set_active(true);
            let code = f();
            crate::set_active(false);
            *r2.lock().unwrap() = code;
        });
    }));
    crate::set_active(false);
    match res {
        Ok(()) => {
            write_stats("return");
            let code = *result.lock().unwrap();
            code
        }
        Err(e) => {
            let msg = if let Some(s) = e.downcast_ref::<&str>() {
                s.to_string()
            } else if let Some(s) = e.downcast_ref::<String>() {
                s.clone()
            } else {
                "panic".to_string()
            };
            let first = msg.lines().next().unwrap_or("").to_string();
            eprintln!("VERIF-PANIC: {}", first);
            *OUTCOME.lock().unwrap() = format!("panic: {}", first);
            write_stats("panic");
            // distinct from every documented Dora exit status (traps are 101..110)
            unsafe { libc::_exit(70) }
        }
    }
}
