//! Invariant monitors and reach probes. A monitor failure panics with a message starting
//! with "VERIF-MONITOR <name>:" so the orchestrator can classify it.

use std::sync::atomic::{AtomicU64, AtomicUsize, Ordering};

/// Task id of the thread currently inside a stop-the-world operation, or usize::MAX.
pub static STW_OWNER: AtomicUsize = AtomicUsize::new(usize::MAX);
pub static STW_COUNT: AtomicU64 = AtomicU64::new(0);

pub const NPROBES: usize = 32;
pub static PROBES: [AtomicU64; NPROBES] = [const { AtomicU64::new(0) }; NPROBES];

#[inline]
pub fn probe(i: usize) {
    PROBES[i].fetch_add(1, Ordering::Relaxed);
}

pub fn probe_snapshot() -> Vec<u64> {
    PROBES.iter().map(|p| p.load(Ordering::Relaxed)).collect()
}

pub fn fail(name: &str, msg: &str) -> ! {
    panic!("VERIF-MONITOR {}: {}", name, msg);
}

/// Entering the stop-the-world operation (world must be stopped from now on).
pub fn stw_enter() {
    let me = crate::current_task();
    let prev = STW_OWNER.swap(me, Ordering::Relaxed);
    if prev != usize::MAX {
        fail("M-stw", &format!("two stop-the-world operations active: task {} and task {}", prev, me));
    }
    STW_COUNT.fetch_add(1, Ordering::Relaxed);
}

pub fn stw_leave() {
    STW_OWNER.store(usize::MAX, Ordering::Relaxed);
}

pub fn stw_active() -> bool {
    STW_OWNER.load(Ordering::Relaxed) != usize::MAX
}
