//! Invariant monitors and reach probes. A monitor failure panics with a message starting
//! with "VERIF-MONITOR <name>:" so the orchestrator can classify it.

use std::sync::atomic::{AtomicU64, AtomicUsize, Ordering};

/// Task id of the thread currently inside a stop-the-world operation, or usize::MAX.
pub static STW_OWNER: AtomicUsize = AtomicUsize::new(usize::MAX);
pub static STW_COUNT: AtomicU64 = AtomicU64::new(0);

pub const NPROBES: usize = 32;
pub static PROBES: [AtomicU64; NPROBES] = [const { AtomicU64::new(0) }; NPROBES];

#[inline]
pub fn probe(i: usize) {
    PROBES[i].fetch_add(1, Ordering::Relaxed);
}

pub fn probe_snapshot() -> Vec<u64> {
    PROBES.iter().map(|p| p.load(Ordering::Relaxed)).collect()
}

static DISABLED: std::sync::Mutex<Vec<String>> = std::sync::Mutex::new(Vec::new());

/// Switch a monitor off for this process (used to observe what a detected invariant
/// violation leads to downstream, and by negative controls).
pub fn disable(name: &str) {
    DISABLED.lock().unwrap().push(name.to_string());
}

pub fn fail(name: &str, msg: &str) {
    if DISABLED.lock().map(|d| d.iter().any(|n| n == name)).unwrap_or(false) {
        return;
    }
    panic!("VERIF-MONITOR {}: {}", name, msg);
}

/// Entering the stop-the-world operation (world must be stopped from now on).
pub fn stw_enter() {
    let me = crate::current_task();
    let prev = STW_OWNER.swap(me, Ordering::Relaxed);
    if prev != usize::MAX {
        fail("M-stw", &format!("two stop-the-world operations active: task {} and task {}", prev, me));
    }
    STW_COUNT.fetch_add(1, Ordering::Relaxed);
}

pub fn stw_leave() {
    STW_OWNER.store(usize::MAX, Ordering::Relaxed);
}

pub fn stw_active() -> bool {
    STW_OWNER.load(Ordering::Relaxed) != usize::MAX
}


/// True while the concurrent sweeper of the generational collector is running.
pub static SWEEP_ACTIVE: std::sync::atomic::AtomicBool = std::sync::atomic::AtomicBool::new(false);
pub static SWEEPS: AtomicU64 = AtomicU64::new(0);

pub fn sweep_active(on: bool) {
    SWEEP_ACTIVE.store(on, Ordering::Relaxed);
    if on {
        SWEEPS.fetch_add(1, Ordering::Relaxed);
    }
}

/// Monitor M-once: inside one parallel collection phase every work item (object) is taken
/// from the pools and processed exactly once.
static ONCE: std::sync::Mutex<(String, Option<std::collections::HashSet<usize>>)> = std::sync::Mutex::new((String::new(), None));
pub static ONCE_VISITS: AtomicU64 = AtomicU64::new(0);

pub fn once_begin(phase: &str) {
    if !crate::is_active() {
        return;
    }
    let mut g = ONCE.lock().unwrap();
    g.0 = phase.to_string();
    g.1 = Some(std::collections::HashSet::new());
}

pub fn once_visit(addr: usize) {
    if !crate::is_active() {
        return;
    }
    ONCE_VISITS.fetch_add(1, Ordering::Relaxed);
    let mut g = ONCE.lock().unwrap();
    let phase = g.0.clone();
    if let Some(set) = g.1.as_mut() {
        if !set.insert(addr) {
            drop(g);
            fail("M-once", &format!("object 0x{:x} was taken from the work pools twice in one {} phase", addr, phase));
        }
    }
}

/// Monitor M-walk: a stop-the-world operation that walks the heap page by page (the heap
/// snapshot) must not overlap with the concurrent sweeper, which rewrites dead objects of
/// the same pages into free-space fillers with two separate stores (header, length).
/// Called once per object visited by the walk; also a (thinned) scheduling point, because
/// any OS schedule may preempt the walking thread between two objects.
pub static WALK_OBJECTS: AtomicU64 = AtomicU64::new(0);

pub fn heap_walk_object(old_page: bool) {
    if !crate::is_active() {
        return;
    }
    WALK_OBJECTS.fetch_add(1, Ordering::Relaxed);
    if old_page && SWEEP_ACTIVE.load(Ordering::Relaxed) {
        probe(5);
        fail("M-walk", "the concurrent sweeper is still rewriting old-generation pages while a stop-the-world heap walk (heap snapshot) parses them");
    }
    crate::sched_point_hot();
}

/// Out-of-memory report (one of the stop-the-world operations named by C04): once the
/// allocation ladder of a thread is exhausted, the report (message, stack trace, flush,
/// exit) must be produced while that thread owns a stop-the-world operation.
pub static HEAP_EXHAUSTED_BY: AtomicUsize = AtomicUsize::new(usize::MAX);
pub static OOM_REPORTS: AtomicU64 = AtomicU64::new(0);

pub fn heap_exhausted() {
    if crate::is_active() {
        HEAP_EXHAUSTED_BY.store(crate::current_task(), Ordering::Relaxed);
    }
}

/// Called at the start of every trap report. `oom` = the trap is the out-of-memory trap.
pub fn trap_report(oom: bool) {
    if !crate::is_active() {
        return;
    }
    let me = crate::current_task();
    let owner = STW_OWNER.load(Ordering::Relaxed);
    if owner != usize::MAX && owner != me {
        fail("M-stw", &format!("task {} executes a trap (managed code) while the stop-the-world operation of task {} is active", me, owner));
    }
    if oom && HEAP_EXHAUSTED_BY.load(Ordering::Relaxed) == me {
        OOM_REPORTS.fetch_add(1, Ordering::Relaxed);
        if owner != me {
            fail("M-stw", "the out-of-memory report of an exhausted allocation runs outside of a stop-the-world operation: the other threads are not stopped while it is produced");
        }
    }
    // the report is not indivisible: other tasks may run while it is being written
    crate::sched_point();
}

/// Committed bytes per space of the generational collector at the out-of-memory trap
/// (0 = not recorded); written to the statistics file for the classification of the trap.
pub static OOM_HEAP: [AtomicU64; 3] = [const { AtomicU64::new(0) }; 3];

pub fn heap_at_oom(young: usize, old: usize, large: usize) {
    OOM_HEAP[0].store(young as u64, Ordering::Relaxed);
    OOM_HEAP[1].store(old as u64, Ordering::Relaxed);
    OOM_HEAP[2].store(large as u64, Ordering::Relaxed);
}

/// A native that blocks (sleeps, waits for I/O) must park its thread first: a thread that
/// blocks while its state is Running makes every stop-the-world operation wait until the
/// call returns. `running` = the state byte of the calling thread says Running (or
/// SafepointRequested) at the moment it blocks.
pub static BLOCKING_NATIVES: AtomicU64 = AtomicU64::new(0);

pub fn blocking_native(name: &str, running: bool) {
    if !crate::is_active() {
        return;
    }
    BLOCKING_NATIVES.fetch_add(1, Ordering::Relaxed);
    if running {
        fail("M-stw", &format!("native {} blocks while its thread is in state Running: a stop-the-world operation requested meanwhile has to wait until the call returns", name));
    }
}
