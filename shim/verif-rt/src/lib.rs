//! Simulator core shared by every tier: PRNG streams, scheduling points, the seeded
//! scheduler (a `shuttle::scheduler::Scheduler`), the fault controller and the monitors.
//!
//! Nothing in here reads a clock or the OS PRNG. Every choice is derived from the 64-bit
//! seed handed to `Sim::new`/`configure`, split into independent streams by name.

pub mod atomic;
pub mod fault;
pub mod monitor;
pub mod prng;
pub mod sched;
pub mod tierb;

use std::sync::atomic::{AtomicBool, AtomicU64, Ordering};

static ACTIVE: AtomicBool = AtomicBool::new(false);

/// Probability (in 1/65536 units) that a "hot" scheduling point (object header word
/// operations, one per marked object) is turned into a real scheduling point.
static HOT_RATE: AtomicU64 = AtomicU64::new(0);
static HOT_RATE_SWEEP: AtomicU64 = AtomicU64::new(0);
static HOT_STATE: AtomicU64 = AtomicU64::new(0x9e37_79b9_7f4a_7c15);

pub static STAT_POINTS: AtomicU64 = AtomicU64::new(0);
pub static STAT_HOT_POINTS: AtomicU64 = AtomicU64::new(0);
pub static STAT_HOT_TAKEN: AtomicU64 = AtomicU64::new(0);

/// Marks the beginning/end of a simulated execution. Outside of one, scheduling points
/// are no-ops (static initialisers, process teardown).
pub fn set_active(on: bool) {
    ACTIVE.store(on, Ordering::Relaxed);
}

pub fn is_active() -> bool {
    ACTIVE.load(Ordering::Relaxed)
}

pub fn set_hot_rate_sweep(rate_per_65536: u64) {
    HOT_RATE_SWEEP.store(rate_per_65536, Ordering::Relaxed);
}

pub fn set_hot_rate(rate_per_65536: u64, seed: u64) {
    HOT_RATE.store(rate_per_65536, Ordering::Relaxed);
    HOT_RATE_SWEEP.store(rate_per_65536, Ordering::Relaxed);
    HOT_STATE.store(seed | 1, Ordering::Relaxed);
}

/// A protocol scheduling point: the simulator may switch to any other runnable task here.
#[inline]
pub fn sched_point() {
    if ACTIVE.load(Ordering::Relaxed) {
        STAT_POINTS.fetch_add(1, Ordering::Relaxed);
        // sleep(0) is a plain switch; yield_now would be treated as a priority drop by PCT.
        shuttle::thread::sleep(std::time::Duration::from_secs(0));
    }
}

/// A hot scheduling point: thinned deterministically so that millions of header-word
/// operations do not drown the protocol operations.
#[inline]
pub fn sched_point_hot() {
    if ACTIVE.load(Ordering::Relaxed) {
        // cooperative fault point: while the concurrent sweeper runs, header-word stores of
        // mutators and sweeper race - use the (usually much higher) `hotsweep` rate there
        let rate = if monitor::SWEEP_ACTIVE.load(Ordering::Relaxed) { HOT_RATE_SWEEP.load(Ordering::Relaxed) } else { HOT_RATE.load(Ordering::Relaxed) };
        STAT_HOT_POINTS.fetch_add(1, Ordering::Relaxed);
        if rate == 0 {
            return;
        }
        // xorshift64*, single OS thread under simulation: plain load/store is exact.
        let mut x = HOT_STATE.load(Ordering::Relaxed);
        x ^= x >> 12;
        x ^= x << 25;
        x ^= x >> 27;
        HOT_STATE.store(x, Ordering::Relaxed);
        let r = (x.wrapping_mul(0x2545_f491_4f6c_dd1d) >> 48) & 0xffff;
        if r < rate {
            STAT_HOT_TAKEN.fetch_add(1, Ordering::Relaxed);
            shuttle::thread::sleep(std::time::Duration::from_secs(0));
        }
    }
}

/// Current task id as a small integer, or usize::MAX outside an execution.
pub fn current_task() -> usize {
    if !is_active() {
        return usize::MAX;
    }
    match shuttle::current::get_current_task() {
        Some(id) => usize::from(id),
        None => usize::MAX,
    }
}

static DATA: std::sync::Mutex<Option<prng::Prng>> = std::sync::Mutex::new(None);

/// (Re)seed the data stream used by facade crates (steal victims etc.).
pub fn seed_data(seed: u64) {
    *DATA.lock().unwrap() = Some(prng::Prng::stream(seed, "data", 1));
}

pub fn data_u64() -> u64 {
    let mut g = DATA.lock().unwrap();
    if g.is_none() {
        *g = Some(prng::Prng::stream(0, "data", 1));
    }
    g.as_mut().unwrap().next_u64()
}

#[inline(always)]
pub fn no_point() {}
