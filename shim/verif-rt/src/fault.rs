//! Fault controller for the whole-executable simulator (Tier B): decides, from the
//! "fault" stream of the run's seed, which allocation gets an injected collection or a
//! spurious first-attempt failure. All fires are counted.

use crate::prng::Prng;
use std::sync::atomic::{AtomicU64, Ordering};
use std::sync::Mutex;

#[derive(Clone, Copy, Debug, PartialEq, Eq)]
pub enum AllocFault {
    None,
    MinorGc,
    FullGc,
    FailOnce,
}

pub struct FaultCfg {
    pub rng: Prng,
    /// per-65536 probabilities
    pub p_minor: u64,
    pub p_full: u64,
    pub p_fail: u64,
    /// burst: after a fire, the next `burst_left` allocations fire the same fault
    pub burst_len: u64,
    burst_left: u64,
    burst_kind: AllocFault,
    /// explicit list (allocation ordinal -> fault) used by replay/minimisation; when set the
    /// probabilistic draw is disabled
    pub explicit: Option<Vec<(u64, AllocFault)>>,
    pub fired: Vec<(u64, AllocFault)>,
    pub record_fired: bool,
}

static CFG: Mutex<Option<FaultCfg>> = Mutex::new(None);
pub static ALLOC_ORDINAL: AtomicU64 = AtomicU64::new(0);
pub static FIRED_MINOR: AtomicU64 = AtomicU64::new(0);
pub static FIRED_FULL: AtomicU64 = AtomicU64::new(0);
pub static FIRED_FAIL: AtomicU64 = AtomicU64::new(0);

pub fn configure(seed: u64, p_minor: u64, p_full: u64, p_fail: u64, burst_len: u64, explicit: Option<Vec<(u64, AllocFault)>>, record_fired: bool) {
    *CFG.lock().unwrap() = Some(FaultCfg {
        rng: Prng::stream(seed, "fault", 0),
        p_minor,
        p_full,
        p_fail,
        burst_len,
        burst_left: 0,
        burst_kind: AllocFault::None,
        explicit,
        fired: Vec::new(),
        record_fired,
    });
}

/// Called (guarded hook) at the top of `Gc::alloc`; returns the fault for this allocation.
pub fn on_alloc() -> AllocFault {
    let ord = ALLOC_ORDINAL.fetch_add(1, Ordering::Relaxed);
    let mut g = CFG.lock().unwrap();
    let cfg = match g.as_mut() {
        Some(c) => c,
        None => return AllocFault::None,
    };
    let f = if let Some(list) = &cfg.explicit {
        list.iter().find(|(o, _)| *o == ord).map(|(_, f)| *f).unwrap_or(AllocFault::None)
    } else if cfg.burst_left > 0 {
        cfg.burst_left -= 1;
        cfg.burst_kind
    } else {
        let r = cfg.rng.below(65536);
        let f = if r < cfg.p_minor {
            AllocFault::MinorGc
        } else if r < cfg.p_minor + cfg.p_full {
            AllocFault::FullGc
        } else if r < cfg.p_minor + cfg.p_full + cfg.p_fail {
            AllocFault::FailOnce
        } else {
            AllocFault::None
        };
        if f != AllocFault::None && cfg.burst_len > 0 && cfg.rng.chance(1, 4) {
            cfg.burst_left = cfg.rng.below(cfg.burst_len + 1);
            cfg.burst_kind = f;
        }
        f
    };
    match f {
        AllocFault::None => {}
        AllocFault::MinorGc => {
            FIRED_MINOR.fetch_add(1, Ordering::Relaxed);
        }
        AllocFault::FullGc => {
            FIRED_FULL.fetch_add(1, Ordering::Relaxed);
        }
        AllocFault::FailOnce => {
            FIRED_FAIL.fetch_add(1, Ordering::Relaxed);
        }
    }
    if f != AllocFault::None && cfg.record_fired {
        cfg.fired.push((ord, f));
    }
    f
}

pub fn fired_list() -> Vec<(u64, AllocFault)> {
    CFG.lock().unwrap().as_ref().map(|c| c.fired.clone()).unwrap_or_default()
}
