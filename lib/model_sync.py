"""Reference model and generator for workloads/sync.dora.

Script: [nthreads, nmutex, natomic, capacity, len_0, ops_0..., len_1, ops_1..., ...] where every
op is a quadruple (op, x, y, z). The final state is schedule-independent by construction:
queue operations are balanced inside each phase (threads are producer-only or consumer-only
within a phase, one queue), phases are separated by a barrier that every thread passes the
same number of times, nested locks are taken in a global order.
"""
OPS = {"LOCKINC": 0, "ATOMIC_ADD": 1, "PRODUCE": 2, "CONSUME": 3, "GARBAGE": 4, "PREEMPT": 5, "BARRIER": 6,
       "CAS": 7, "NESTED": 8, "LONELY": 9, "SPAWNJOIN": 10, "EXCHANGE": 11, "WAIT_EVENT": 12, "SET_EVENT": 13}


def flatten(params, threads):
    s = list(params)
    for ops in threads:
        s.append(len(ops))
        for op in ops:
            s.extend(op)
    return s


def parse(script):
    nthreads, nmutex, natomic, cap = script[:4]
    pc = 4
    threads = []
    for _ in range(nthreads):
        n = script[pc]
        pc += 1
        ops = [tuple(script[pc + 4 * i: pc + 4 * i + 4]) for i in range(n)]
        pc += 4 * n
        threads.append(ops)
    return (nthreads, nmutex, natomic, cap), threads


def expected(script):
    (nthreads, nmutex, natomic, cap), threads = parse(script)
    counters = [0] * nmutex
    atom = [0] * natomic
    produced = 0
    consumed_n = 0
    joined = 0
    conserved = 0
    conserved64 = 0
    barriers = [0] * nthreads
    events_set = set()
    events_waits = 0
    for t, ops in enumerate(threads):
        for (op, x, y, z) in ops:
            if op == 0:
                counters[x % nmutex] += y
            elif op == 1:
                atom[x % natomic] += y
                conserved += 1
            elif op == 2:
                produced += x
            elif op == 3:
                consumed_n += 1
            elif op == 6:
                barriers[t] += 1
            elif op == 7:
                if z == 1:
                    conserved += 1
                else:
                    atom[x % natomic] += y
            elif op == 8:
                a, b = x % nmutex, y % nmutex
                if a != b:
                    counters[a] += 1
                    counters[b] += 1
            elif op == 10:
                joined += x
            elif op == 11:
                if z == 1:
                    conserved64 += y * 4294967311
                else:
                    conserved += y
            elif op == 12:
                events_waits += 1
            elif op == 13:
                events_set.add(x % nthreads)
    assert len(set(barriers)) == 1
    out = []
    for i in range(nmutex):
        out.append("counter %d %d 0" % (i, counters[i]))
    for i in range(natomic):
        out.append("atomic %d %d" % (i, atom[i]))
    out.append("queue %d %d 0" % (produced, produced))
    out.append("joined %d" % joined)
    out.append("conserved %d" % conserved)
    out.append("conserved64 %d" % conserved64)
    out.append("barrier %d 0" % barriers[0])
    out.append("events %d %d" % (len(events_set), events_waits))
    return "\n".join(out) + "\n"


def generate_events(rng):
    """Many objects keyed in the wait table at once: every thread but the main one waits on
    its own one-shot event (own mutex + condition); the main thread forces collections while
    they are queued and then sets the events in random order. Deadlock-free by construction:
    the main thread never waits."""
    nthreads = rng.randint(6, 10)
    threads = [[] for _ in range(nthreads)]
    for t in range(1, nthreads):
        if rng.random() < 0.3:
            threads[t].append((4, rng.choice([1, 50]), 0, 0))
        threads[t].append((12, t, 0, 0))
        if rng.random() < 0.3:
            threads[t].append((0, 0, 1, rng.choice([0, 1, 2])))
    main = []
    for _ in range(rng.randint(1, 4)):
        main.append((5, rng.choice([1, 1, 3, 4, 2]), 0, 0))
    order = list(range(1, nthreads))
    rng.shuffle(order)
    for e in order:
        main.append((13, e, rng.randrange(2), 0))
        if rng.random() < 0.3:
            main.append((5, rng.choice([1, 3, 4]), 0, 0))
    threads[0] = main
    return flatten((nthreads, 1, 1, 1), threads), "events"


def generate(rng, max_threads=5):
    if rng.random() < 0.12:
        return generate_events(rng)
    nthreads = rng.randint(2, max_threads)
    nmutex = rng.randint(1, 3)
    natomic = rng.randint(1, 3)
    cap = rng.choice([1, 1, 2, 4, 16])
    profile = rng.choice(["mixed", "mutex", "queue", "barrier", "join", "atomic"])
    nphases = rng.randint(1, 4) if profile != "barrier" else rng.randint(3, 8)
    pk = lambda: rng.choice([0, 1, 1, 2, 3, 4, 5]) if profile != "mutex" else rng.choice([1, 1, 2, 3, 5])
    threads = [[] for _ in range(nthreads)]
    for ph in range(nphases):
        # queue roles for this phase
        roles = ["none"] * nthreads
        if profile in ("mixed", "queue") and rng.random() < (0.9 if profile == "queue" else 0.5):
            perm = list(range(nthreads))
            rng.shuffle(perm)
            nprod = rng.randint(1, nthreads - 1)
            ncons = rng.randint(1, nthreads - nprod)
            prods, cons = perm[:nprod], perm[nprod:nprod + ncons]
            total = rng.randint(1, 12 if profile == "queue" else 5)
            pcount = [0] * nthreads
            ccount = [0] * nthreads
            for _ in range(total):
                pcount[rng.choice(prods)] += 1
                ccount[rng.choice(cons)] += 1
        else:
            pcount = [0] * nthreads
            ccount = [0] * nthreads
        for t in range(nthreads):
            ops = []
            n = rng.randint(0, 5)
            for _ in range(n):
                r = rng.random()
                if profile == "mutex" or (profile == "mixed" and r < 0.3):
                    if rng.random() < 0.75:
                        ops.append((0, rng.randrange(nmutex), rng.randint(1, 4), pk()))
                    else:
                        ops.append((8, rng.randrange(nmutex), rng.randrange(nmutex), pk()))
                elif profile == "atomic" or (profile == "mixed" and r < 0.5):
                    k = rng.random()
                    if k < 0.4:
                        ops.append((1, rng.randrange(natomic), rng.choice([rng.randint(1, 1000), (1 << 33) + rng.randint(0, 9), (1 << 40) - 1]), 0))
                    elif k < 0.7:
                        ops.append((7, rng.randrange(natomic), rng.choice([rng.randint(1, 1000), (1 << 32) + rng.randint(0, 9), (1 << 45) + 3]), rng.choice([0, 0, 1])))
                    else:
                        ops.append((11, rng.randrange(natomic), rng.randint(-1000, 1000), rng.randrange(2)))
                elif profile == "join" or (profile == "mixed" and r < 0.6):
                    ops.append((10, rng.randint(1, 100000), pk(), pk()))
                elif r < 0.7:
                    ops.append((4, rng.choice([1, 50, 500, 3000]), 0, 0))
                elif r < 0.85:
                    ops.append((5, pk(), 0, 0))
                elif r < 0.9:
                    ops.append((9, rng.randrange(2), 0, 0))
                else:
                    ops.append((0, rng.randrange(nmutex), 1, pk()))
            # interleave queue ops at random positions
            for _ in range(pcount[t]):
                ops.insert(rng.randint(0, len(ops)), (2, rng.randint(1, 1000), rng.randrange(2), 0))
            for _ in range(ccount[t]):
                ops.insert(rng.randint(0, len(ops)), (3, 0, rng.randrange(2), 0))
            threads[t].extend(ops)
            if ph != nphases - 1 or rng.random() < 0.3:
                pass
        if ph != nphases - 1:
            for t in range(nthreads):
                threads[t].append((6, 0, 0, 0))
    return flatten((nthreads, nmutex, natomic, cap), threads), profile


if __name__ == "__main__":
    import random, sys
    r = random.Random(int(sys.argv[1]) if len(sys.argv) > 1 else 1)
    s, p = generate(r)
    print(" ".join(map(str, s)))
    sys.stderr.write(expected(s))
