"""Reference model and script generator for workloads/heapgraph.dora.

The model is a plain Python object graph; `run(script)` returns the exact expected stdout.
Scripts are lists of integers: [nslots, op, x, y, z, op, x, y, z, ...].
"""
M = 1000000007

OPS = {"NEW": 0, "LINK": 1, "UNLINK": 2, "DROP": 3, "ARR": 4, "ARRSET": 5, "CHURN": 6, "SUM": 7, "GCFULL": 8,
       "GCMINOR": 9, "STR": 10, "DEEP": 11, "PAIRS": 12, "CLOSURE": 13, "GLOBAL": 14, "SUMALL": 15, "KEEPCHURN": 16, "FILLARR": 17, "REFRESH": 18, "SNAP": 19, "DUO": 20, "STRCMP": 21, "TRACES": 22}


class Node:
    __slots__ = ("id", "a", "b", "arr", "pairs", "payload_len", "slen", "f", "mark", "two", "duos")

    def __init__(self, id, k):
        self.id = id
        self.a = None
        self.b = None
        self.arr = None
        self.pairs = None
        self.payload_len = k
        self.slen = 0
        self.f = None  # captured node
        self.mark = 0
        self.two = (None, 0, None)
        self.duos = None


class World:
    def __init__(self, nslots):
        self.slots = [None] * nslots
        self.next_id = 1
        self.epoch = 0
        self.glob = None
        self.out = []
        # bookkeeping for the generator (approximate live bytes)
        self.alloc_bytes = 0

    def new_node(self, k):
        n = Node(self.next_id, k)
        self.next_id += 1
        self.alloc_bytes += 96 + 8 * k
        return n

    def checksum(self, root):
        self.epoch += 1
        epoch = self.epoch
        s = 0
        stack = []
        if root is not None:
            stack.append((root, 1))
        while stack:
            n, depth = stack.pop()
            if n.mark == epoch:
                continue
            n.mark = epoch
            local = n.id * 31 + depth + n.payload_len * n.id + n.slen * 7
            if n.f is not None:
                local += n.f.id + depth + 2
            s = (s * 3 + local) % M
            if n.a is not None:
                stack.append((n.a, depth + 1))
            if n.b is not None:
                stack.append((n.b, depth + 1))
            if n.arr is not None:
                for e in n.arr:
                    if e is not None:
                        stack.append((e, depth + 1))
            if n.pairs is not None:
                for (k, pn) in n.pairs:
                    s = (s + k) % M
                    if pn is not None:
                        stack.append((pn, depth + 1))
            tl, tk, tr = n.two
            s = (s + tk) % M
            if tl is not None:
                stack.append((tl, depth + 1))
            if tr is not None:
                stack.append((tr, depth + 1))
            if n.duos is not None:
                for (dl, dr) in n.duos:
                    if dl is not None:
                        stack.append((dl, depth + 1))
                    if dr is not None:
                        stack.append((dr, depth + 1))
        return s

    def deep(self, d, keep, churn):
        mine = self.new_node(d % 5)
        mine.a = keep
        if d == 0:
            for _ in range(churn):
                self.new_node(3)
            return self.checksum(mine)
        below = self.deep(d - 1, mine, churn)
        return (below * 7 + mine.id + self.checksum(mine)) % M

    def step(self, op, x, y, z):
        ns = len(self.slots)
        if op == 0:
            self.slots[x % ns] = self.new_node(y)
        elif op == 1:
            dst = self.slots[x % ns]
            if dst is not None:
                if z % 2 == 0:
                    dst.a = self.slots[y % ns]
                else:
                    dst.b = self.slots[y % ns]
        elif op == 2:
            dst = self.slots[x % ns]
            if dst is not None:
                if z % 2 == 0:
                    dst.a = None
                else:
                    dst.b = None
        elif op == 3:
            self.slots[x % ns] = None
        elif op == 4:
            dst = self.slots[x % ns]
            if dst is not None:
                dst.arr = [None] * y
                self.alloc_bytes += 24 + 8 * y
        elif op == 5:
            dst = self.slots[x % ns]
            if dst is not None and dst.arr is not None and len(dst.arr) > 0:
                dst.arr[y % len(dst.arr)] = self.slots[z % ns]
        elif op == 6:
            for _ in range(x):
                self.new_node(y)
        elif op == 7:
            self.out.append("sum %d %d" % (x % ns, self.checksum(self.slots[x % ns])))
        elif op in (8, 9, 19, 22):
            pass
        elif op == 10:
            dst = self.slots[x % ns]
            if dst is not None:
                dst.slen = 2 * y
                self.alloc_bytes += y * (y + 1) + 32
        elif op == 11:
            self.out.append("deep %d" % self.deep(x, self.slots[y % ns], z))
        elif op == 12:
            dst = self.slots[x % ns]
            if dst is not None:
                src = self.slots[z % ns]
                pairs = []
                for i in range(y):
                    if i % 2 == 0:
                        pairs.append((i + 1, src))
                    else:
                        pairs.append((i + 1, self.new_node(1)))
                dst.pairs = pairs
                self.alloc_bytes += 24 + 16 * y
        elif op == 13:
            dst = self.slots[x % ns]
            if dst is not None:
                src = self.slots[y % ns]
                cap = self.new_node(2)
                cap.a = src
                dst.f = cap
        elif op == 14:
            if x == 0:
                self.glob = self.slots[y % ns]
            elif x == 1:
                self.out.append("global %d" % self.checksum(self.glob))
            else:
                self.glob = None
        elif op == 21:
            l, r = self.slots[x % ns], self.slots[y % ns]
            if l is not None and r is not None:
                self.out.append("cmp %d" % ((l.slen > r.slen) - (l.slen < r.slen)))
        elif op == 20:
            dst = self.slots[x % ns]
            if dst is not None:
                src = self.slots[y % ns]
                pat = z % 4
                l = src if pat in (0, 2) else None
                r = src if pat in (1, 2) else None
                if (z // 4) % 2 == 1:
                    if dst.duos is None:
                        dst.duos = [(None, None)] * 4
                        self.alloc_bytes += 24 + 16 * 4
                    dst.duos[(z // 8) % 4] = (l, r)
                else:
                    dst.two = (l, z, r)
        elif op == 17:
            dst = self.slots[x % ns]
            if dst is not None:
                dst.arr = [self.new_node(z) for _ in range(y)]
                self.alloc_bytes += 24 + 8 * y
        elif op == 18:
            dst = self.slots[x % ns]
            if dst is not None and dst.arr is not None and y > 0:
                i = 0
                while i < len(dst.arr):
                    if dst.arr[i] is not None:
                        dst.arr[i].a = self.new_node(1)
                    i += y
        elif op == 16:
            for i in range(x):
                n = self.new_node(1)
                if y > 0 and i % y == 0:
                    n.a = self.slots[z % ns]
                    self.slots[z % ns] = n
        elif op == 15:
            total = 0
            for i in range(ns):
                total = (total * 5 + self.checksum(self.slots[i])) % M
            self.out.append("all %d" % total)


def run(script):
    w = World(script[0])
    pc = 1
    while pc + 3 < len(script):
        w.step(script[pc], script[pc + 1], script[pc + 2], script[pc + 3])
        pc += 4
    w.out.append("end %d" % w.next_id)
    return "\n".join(w.out) + "\n", w


def live_bytes(w):
    """Upper estimate of reachable bytes (for keeping generated scripts inside the heap)."""
    seen = set()
    total = 0
    stack = [n for n in w.slots if n is not None]
    if w.glob is not None:
        stack.append(w.glob)
    while stack:
        n = stack.pop()
        if id(n) in seen:
            continue
        seen.add(id(n))
        total += 112 + 8 * n.payload_len + n.slen + 32
        for c in (n.a, n.b, n.f):
            if c is not None:
                stack.append(c)
        if n.arr is not None:
            total += 24 + 8 * len(n.arr)
            stack.extend(e for e in n.arr if e is not None)
        if n.pairs is not None:
            total += 24 + 16 * len(n.pairs)
            stack.extend(p for (_, p) in n.pairs if p is not None)
        total += 24
        stack.extend(c for c in (n.two[0], n.two[2]) if c is not None)
        if n.duos is not None:
            total += 24 + 16 * len(n.duos)
            for (dl, dr) in n.duos:
                stack.extend(c for c in (dl, dr) if c is not None)
    return total


def generate(rng, max_ops=200, live_limit=256 * 1024, profile=None):
    """Generate a script whose reachable data stays below live_limit at every step.

    rng: random.Random seeded from the run's workload stream. Swarm style: the op mix is
    drawn per script."""
    nslots = rng.choice([2, 4, 8, 16, 32])
    nops = rng.randint(5, max_ops)
    profile = profile or rng.choice(["mixed", "mixed", "links", "arrays", "churn", "deep", "interior", "oldwrite", "oldwrite", "wide", "wide"])
    if profile == "oldwrite":
        return generate_oldwrite(rng), profile
    if profile == "wide":
        return generate_wide(rng), profile
    weights = {
        "mixed": dict(TRACES=1, STRCMP=3, DUO=5, NEW=10, LINK=10, UNLINK=3, DROP=4, ARR=3, ARRSET=6, CHURN=4, SUM=6, GCFULL=1, GCMINOR=2, STR=2, DEEP=2, PAIRS=2, CLOSURE=2, GLOBAL=2, SUMALL=2, KEEPCHURN=1),
        "links": dict(DUO=8, NEW=12, LINK=20, UNLINK=6, DROP=5, SUM=6, GCMINOR=2, GCFULL=1, SUMALL=2, CHURN=3),
        "arrays": dict(NEW=8, ARR=8, ARRSET=20, LINK=4, DROP=3, SUM=6, CHURN=3, GCMINOR=2, GCFULL=1, SUMALL=2, PAIRS=4),
        "churn": dict(NEW=5, LINK=4, CHURN=14, KEEPCHURN=8, SUM=4, DROP=2, STR=5, STRCMP=5, SUMALL=1, TRACES=4),
        "deep": dict(NEW=6, LINK=6, DEEP=10, SUM=4, CHURN=3, GCMINOR=1, CLOSURE=3),
        "interior": dict(DUO=10, NEW=8, PAIRS=10, CLOSURE=8, GLOBAL=6, LINK=6, SUM=6, DROP=3, CHURN=4, SUMALL=2, GCMINOR=2),
    }[profile]
    names = list(weights)
    wts = [weights[n] for n in names]
    big = rng.random() < 0.3  # allow large-space objects
    script = [nslots]
    w = World(nslots)
    # start with a few nodes so that early ops are not no-ops
    pre = rng.randint(1, nslots)
    ops = [("NEW", i, rng.randint(0, 8), 0) for i in range(pre)]
    while len(ops) < nops:
        name = rng.choices(names, wts)[0]
        x = rng.randrange(nslots)
        y = rng.randrange(nslots)
        z = rng.randrange(nslots)
        if name == "NEW":
            y = rng.choice([0, 1, 2, 5, 16, 64, 200]) if not big else rng.choice([0, 3, 64, 1000, 1100, 4090, 4200])
        elif name == "ARR":
            y = rng.choice([0, 1, 4, 17, 100]) if not big else rng.choice([4, 100, 1000, 4093, 5000, 20000])
        elif name == "ARRSET":
            y = rng.randrange(100000)
        elif name == "CHURN":
            x = rng.choice([1, 10, 100, 1000]) if profile != "churn" else rng.choice([100, 1000, 3000])
            y = rng.choice([0, 1, 8, 32, 128]) if profile != "churn" else rng.choice([0, 8, 64])
            if big and rng.random() < 0.5:
                # short-lived large objects (large-object space): sizes that are not multiples of
                # the 64 KiB page, many of them
                x = rng.choice([50, 300, 1500])
                y = rng.choice([4100, 5000, 8800, 12345, 20000])
        elif name == "KEEPCHURN":
            # survivors spread over the heap: one per 25..1000 allocated nodes; the number of
            # survivors stays small (<= 400 nodes)
            y = rng.choice([25, 100, 250, 1000])
            x = min(rng.choice([2000, 20000, 100000, 300000]), 400 * y)
        elif name == "STR":
            y = rng.choice([0, 1, 4, 4, 5, 8, 12, 40, 120])
        elif name == "DEEP":
            x = rng.choice([0, 1, 5, 20, 60, 150])
            z = rng.choice([0, 10, 200])
        elif name == "PAIRS":
            y = rng.choice([0, 1, 2, 7, 30]) if not big else rng.choice([3, 30, 600, 2100])
        elif name == "GLOBAL":
            x = rng.choice([0, 0, 1, 1, 2])
        elif name == "DUO":
            z = rng.randrange(32)
        elif name == "TRACES":
            x = rng.choice([10, 1000, 30000, 60000])
            y = rng.choice([0, 5, 40, 40])
        ops.append((name, x, y, z))
    for (name, x, y, z) in ops:
        # dry-run on a copy is expensive; run on the model and roll back by re-checking size
        before = list(script)
        script += [OPS[name], x, y, z]
        w.step(OPS[name], x, y, z)
        if name in ("NEW", "ARR", "ARRSET", "LINK", "STR", "PAIRS", "CLOSURE", "GLOBAL", "KEEPCHURN", "DUO") and live_bytes(w) > live_limit:
            # free something instead: drop the slot we just grew
            script += [OPS["DROP"], x, 0, 0]
            w.step(OPS["DROP"], x, 0, 0)
            if live_bytes(w) > live_limit:
                for i in range(nslots):
                    script += [OPS["DROP"], i, 0, 0]
                    w.step(OPS["DROP"], i, 0, 0)
                script += [OPS["GLOBAL"], 2, 0, 0]
                w.step(OPS["GLOBAL"], 2, 0, 0)
    script += [OPS["SUMALL"], 0, 0, 0, OPS["GLOBAL"], 1, 0, 0]
    return script, profile


def generate_wide(rng):
    """Wide graphs (hundreds to thousands of nodes hanging off arrays) that age over minor
    collections and keep getting fresh children: many work items for the parallel marking and
    evacuation tasks (work stealing), promotion of objects that point to young ones."""
    nslots = rng.choice([2, 4, 8])
    ops = []
    for i in range(nslots):
        ops.append(("NEW", i, rng.choice([0, 2]), 0))
    for rnd in range(rng.randint(1, 3)):
        for i in range(rng.randint(1, min(3, nslots))):
            ops.append(("FILLARR", rng.randrange(nslots), rng.choice([70, 150, 400, 1200, 3000]), rng.choice([0, 1, 3])))
        for _ in range(rng.randint(1, 3)):
            ops.append((rng.choice(["GCMINOR", "GCMINOR", "GCFULL"]), 0, 0, 0))
            if rng.random() < 0.8:
                ops.append(("REFRESH", rng.randrange(nslots), rng.choice([1, 2, 3, 7]), 0))
            if rng.random() < 0.3:
                ops.append(("CHURN", rng.choice([100, 1000]), rng.choice([0, 8]), 0))
        for _ in range(rng.randint(1, 3)):
            ops.append(("GCMINOR", 0, 0, 0))
        ops.append(("SUMALL", 0, 0, 0))
        if rng.random() < 0.4:
            ops.append(("DROP", rng.randrange(nslots), 0, 0))
            ops.append(("NEW", rng.randrange(nslots), 1, 0))
    script = [nslots]
    for (name, x, y, z) in ops:
        script += [OPS[name], x, y, z]
    script += [OPS["SUMALL"], 0, 0, 0, OPS["GLOBAL"], 1, 0, 0]
    return script


def generate_oldwrite(rng):
    """Stores into objects that survived a full collection while the concurrent sweeper may
    still be running: survivors get children that are reachable only through them, then
    further collections recycle whatever was freed by mistake."""
    nh = rng.choice([4, 8, 16, 32])
    nslots = 3 * nh
    ops = []
    for i in range(nh):
        ops.append(("NEW", i, rng.choice([0, 2, 3, 8]), 0))
    for rnd in range(rng.randint(1, 3)):
        ops.append((rng.choice(["GCFULL", "GCFULL", "GCMINOR"]), 0, 0, 0))
        order = list(range(nh))
        rng.shuffle(order)
        for i in order[:rng.randint(1, nh)]:
            c = nh + i
            ops.append(("NEW", c, rng.choice([0, 3, 3, 16]), 0))
            kind = rng.random()
            if kind < 0.25:
                # aggregate store: the young child sits in the left, the right or both slots
                ops.append(("DUO", i, c, rng.randrange(32)))
            elif kind < 0.6:
                ops.append(("LINK", i, c, rng.randrange(2)))
            elif kind < 0.8:
                ops.append(("ARR", i, rng.choice([1, 4]), 0))
                ops.append(("ARRSET", i, 0, c))
            else:
                ops.append(("PAIRS", i, 2, c))
            ops.append(("DROP", c, 0, 0))
        ops.append(("GCFULL", 0, 0, 0))
        for r in range(rng.randint(1, 3)):
            for k in range(2 * nh, 3 * nh):
                ops.append(("NEW", k, rng.choice([0, 3, 3, 16]), 0))
            for _ in range(rng.randint(1, 3)):
                ops.append(("GCMINOR", 0, 0, 0))
        ops.append(("SUMALL", 0, 0, 0))
    script = [nslots]
    for (name, x, y, z) in ops:
        script += [OPS[name], x, y, z]
    script += [OPS["SUMALL"], 0, 0, 0, OPS["GLOBAL"], 1, 0, 0]
    return script


if __name__ == "__main__":
    import random, sys
    r = random.Random(int(sys.argv[1]) if len(sys.argv) > 1 else 1)
    s, p = generate(r)
    out, w = run(s)
    print(" ".join(map(str, s)))
    sys.stderr.write(out)


def add_snapshots(script, rng):
    """Insert heap-snapshot operations (swiper only): right after forced collections (the
    concurrent sweeper may still be running) and at random places."""
    out = [script[0]]
    n = (len(script) - 1) // 4
    for k in range(n):
        q = script[1 + 4 * k: 5 + 4 * k]
        out += q
        if (q[0] in (OPS["GCFULL"], OPS["GCMINOR"]) and rng.random() < 0.5) or rng.random() < 0.03:
            out += [OPS["SNAP"], 0, 0, 0]
    return out


def make_variant(dst, vid, src=None):
    """Write layout variant `vid` (>= 1) of workloads/heapgraph.dora to dst. Deterministic in
    vid. Same behaviour, other object layout (padding fields in front of / between the
    reference fields of Node: offsets beyond 127 bytes, other reference maps) and other frame
    layout of `deep` (0-20 extra reference locals that stay live across the recursive call)."""
    import os, random
    src = src or os.path.join(os.path.dirname(os.path.dirname(os.path.abspath(__file__))), "workloads", "heapgraph.dora")
    rng = random.Random(0x5EED0000 + vid)
    pads = [rng.choice([0, 0, 3, 14, 17, 40]) for _ in range(3)]
    if vid % 2 == 1:
        pads[0] = max(pads[0], 17)          # every reference field beyond offset 127
    nlive = rng.choice([0, 4, 12, 20]) if vid % 3 else 20
    out = []
    ctor = ""
    for k in range(3):
        ctor += "".join(", pad%d_%d = %d" % (k, j, 1000 * k + j) for j in range(pads[k]))
    for line in open(src):
        st = line.strip()
        if st.startswith("// PADFIELDS:"):
            k = int(st.split(":")[1])
            for j in range(pads[k]):
                out.append("    pad%d_%d: Int64,\n" % (k, j))
        elif st == "// LIVE:deep":
            for j in range(nlive):
                out.append("    let live%d = if (d + %d) %% 3 == 0 { keep } else { Some[Node](mine) };\n" % (j, j))
        elif st == "// USE:deep":
            for j in range(nlive):
                out.append("    if live%d.is_some() { w.out = w.out + live%d.get_or_panic().id; }\n" % (j, j))
        else:
            if "mark = 0)" in line:
                line = line.replace("mark = 0)", "mark = 0" + ctor + ")")
            out.append(line)
    with open(dst, "w") as f:
        f.writelines(out)
    return {"pads": pads, "live_locals": nlive}
