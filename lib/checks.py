import os, sys, json
from common import *
import tier_a
import tier_b
import props_b
import tier_c


def c12(tier):
    return tier_a.run_tier_a(
        "C12", "term", tier, quick_s=45, thorough_s=1200,
        level_text="seeded random / sticky / PCT / starvation schedules over generated pool scenarios; sampled, not exhaustive",
        real=["dora-runtime/src/gc/swiper/terminator.rs (Terminator::new, try_terminate, wake_up) compiled from /repo's working tree"],
        stub=["work pool: private segment + stealable deque per worker + shared injector, modelled as indivisible steps behind a simulator mutex (crossbeam-deque itself is not simulated)",
              "worker loop: transliteration of MarkingTask::run / CopyTask::trace_gray_objects (pop, process, publish + wake_up, try_terminate)"],
        assumptions=["sequentially consistent interleavings only (shuttle); Relaxed orderings in wake_up's fast path are not examined under weaker memory models",
                     "parking_lot condvars have no spurious wake-ups (its documented contract); the facade keeps that",
                     "callers publish before they poll, as MarkingTask/CopyTask do"])


def c04(tier):
    return tier_a.run_tier_a(
        "C04", "stw", tier, quick_s=60, thorough_s=1200,
        level_text="seeded random / sticky / PCT / starvation schedules over generated 2-4 thread scenarios of polls, managed steps, native calls, concurrent stop-the-world requests, thread start, join and exit; sampled, not exhaustive",
        real=["dora-runtime/src/safepoint.rs (stop_the_world, stop_threads, resume_threads, safepoint_slow)",
              "dora-runtime/src/threads.rs (DoraThread::park/park_slow/unpark/unpark_slow/join/stop, parked_scope, Barrier, Threads::add_main_thread/add_thread/remove_current_thread/join_all)",
              "dora-runtime/src/runtime.rs (Runtime state), all compiled from /repo's working tree with every mutex, condvar and the thread state byte as scheduling points"],
        stub=["compiled code's safepoint poll (cmpb [tld.state],0; jne slow) transliterated as a load + call of the real safepoint_slow",
              "managed work = a step that sets a harness flag and increments a fake heap word",
              "the collector = the checking closure passed to the real stop_the_world",
              "Runtime built with the zero collector and an empty Program"],
        assumptions=["sequentially consistent interleavings only (shuttle); the protocol uses SeqCst on the state byte",
                     "preemption granularity = every shim operation (mutex, condvar, state-byte atomic) plus explicit points inside managed steps, natives and the operation body"])


CHECKS = {"C12": props_b.c12, "C04": props_b.c04, "C03": props_b.c03, "C09": props_b.c09, "C14": tier_c.c14, "C13": props_b.c13, "C15": tier_c.c15, "C18": tier_c.c18}
def replay_ab(harness):
    def f(path):
        obj = json.load(open(path))
        if obj.get("tier") == "B":
            return tier_b.replay_file(path)
        return tier_a.replay_tier_a(harness, path)
    return f


REPLAY = {"C12": replay_ab("term"),
          "C04": replay_ab("stw"),
          "C03": props_b.c03_replay, "C09": replay_ab("waitq"), "C14": tier_c.c14_replay, "C15": tier_c.c15_replay, "C18": tier_c.c18_replay, "C13": tier_b.replay_file}


def main(argv):
    if not argv:
        print("usage: check <property> [--tier quick|thorough] [--replay file]", file=sys.stderr)
        return 2
    prop = argv[0]
    tier = os.environ.get("VERIF_TIER", "quick")
    replay = None
    i = 1
    while i < len(argv):
        if argv[i] == "--tier":
            tier = argv[i + 1]; i += 2
        elif argv[i] == "--replay":
            replay = argv[i + 1]; i += 2
        else:
            i += 1
    if prop not in CHECKS:
        print("unknown property", prop, file=sys.stderr)
        return 2
    if replay:
        return REPLAY[prop](replay)
    return CHECKS[prop](tier)
