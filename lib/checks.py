import os, sys, json
from common import *
import tier_a


def c12(tier):
    return tier_a.run_tier_a(
        "C12", "term", tier, quick_s=45, thorough_s=1200,
        level_text="seeded random / sticky / PCT / starvation schedules over generated pool scenarios; sampled, not exhaustive",
        real=["dora-runtime/src/gc/swiper/terminator.rs (Terminator::new, try_terminate, wake_up) compiled from /repo's working tree"],
        stub=["work pool: private segment + stealable deque per worker + shared injector, modelled as indivisible steps behind a simulator mutex (crossbeam-deque itself is not simulated)",
              "worker loop: transliteration of MarkingTask::run / CopyTask::trace_gray_objects (pop, process, publish + wake_up, try_terminate)"],
        assumptions=["sequentially consistent interleavings only (shuttle); Relaxed orderings in wake_up's fast path are not examined under weaker memory models",
                     "parking_lot condvars have no spurious wake-ups (its documented contract); the facade keeps that",
                     "callers publish before they poll, as MarkingTask/CopyTask do"])


CHECKS = {"C12": c12}
REPLAY = {"C12": lambda path: tier_a.replay_tier_a("term", path)}


def main(argv):
    if not argv:
        print("usage: check <property> [--tier quick|thorough] [--replay file]", file=sys.stderr)
        return 2
    prop = argv[0]
    tier = os.environ.get("VERIF_TIER", "quick")
    replay = None
    i = 1
    while i < len(argv):
        if argv[i] == "--tier":
            tier = argv[i + 1]; i += 2
        elif argv[i] == "--replay":
            replay = argv[i + 1]; i += 2
        else:
            i += 1
    if prop not in CHECKS:
        print("unknown property", prop, file=sys.stderr)
        return 2
    if replay:
        return REPLAY[prop](replay)
    return CHECKS[prop](tier)
