"""Reference model and generator for workloads/mtheap.dora (multi-threaded heap workload).

Threads are independent inside a phase; cross-thread data flows only through the shared
cells, written in even phases (PUBLISH, own cell only, fresh immutable chains) and read in
odd phases (TAKE). The model therefore runs thread after thread, phase after phase."""
M = 1000000007
OPS = {"NEW": 0, "LINK": 1, "UNLINK": 2, "DROP": 3, "CHURN": 4, "SUM": 5, "GCFULL": 6, "GCMINOR": 7, "YIELD": 8, "PUBLISH": 9,
       "TAKE": 10, "LINKF": 11, "LOCKED_ALLOC": 12, "TEXT": 13, "SUMF": 14, "FILEIO": 15, "SNAP": 16, "SHSTORE": 17}


class Node:
    __slots__ = ("id", "owner", "a", "b", "k", "tlen", "mark")

    def __init__(self, id, owner, k):
        self.id, self.owner, self.a, self.b, self.k, self.tlen, self.mark = id, owner, None, None, k, 0, 0


class Local:
    def __init__(self, tid, nslots):
        self.tid = tid
        self.slots = [None] * nslots
        self.foreign = [None] * 4
        self.board = [None] * 4
        self.next_id = tid * 1000000 + 1
        self.epoch = 0
        self.hash = tid

    def new_node(self, k):
        n = Node(self.next_id, self.tid, k)
        self.next_id += 1
        return n

    def checksum(self, root):
        self.epoch += 1
        epoch = self.epoch
        s = 0
        stack = []
        if root is not None:
            stack.append((root, 1))
        while stack:
            n, depth = stack.pop()
            if n.owner == self.tid:
                if n.mark == epoch:
                    continue
                n.mark = epoch
            local = n.id * 31 + depth + n.tlen * 7 + n.k * n.id
            s = (s * 3 + local) % M
            if n.a is not None:
                stack.append((n.a, depth + 1))
            if n.b is not None:
                stack.append((n.b, depth + 1))
        return s


def parse(script):
    t, phases, nslots = script[:3]
    pc = 3
    code = [[None] * phases for _ in range(t)]
    for p in range(phases):
        for tid in range(t):
            n = script[pc]
            pc += 1
            code[tid][p] = [tuple(script[pc + 4 * i: pc + 4 * i + 4]) for i in range(n)]
            pc += 4 * n
    return t, phases, nslots, code


def flatten(t, phases, nslots, code):
    s = [t, phases, nslots]
    for p in range(phases):
        for tid in range(t):
            ops = code[tid][p]
            s.append(len(ops))
            for op in ops:
                s.extend(op)
    return s


def expected(script):
    t, phases, nslots, code = parse(script)
    locs = [Local(tid, nslots) for tid in range(t)]
    cells = [None] * t
    for p in range(phases):
        new_cells = list(cells)
        for tid in range(t):
            l = locs[tid]
            for (op, x, y, z) in code[tid][p]:
                ns = nslots
                if op == 0:
                    l.slots[x % ns] = l.new_node(y)
                elif op == 1:
                    d = l.slots[x % ns]
                    if d is not None:
                        if z % 2 == 0:
                            d.a = l.slots[y % ns]
                        else:
                            d.b = l.slots[y % ns]
                elif op == 2:
                    d = l.slots[x % ns]
                    if d is not None:
                        if z % 2 == 0:
                            d.a = None
                        else:
                            d.b = None
                elif op == 3:
                    l.slots[x % ns] = None
                elif op == 4:
                    for _ in range(x):
                        l.new_node(y)
                elif op == 5:
                    l.hash = (l.hash * 7 + l.checksum(l.slots[x % ns])) % M
                elif op in (6, 7, 8, 16):
                    pass
                elif op == 9:
                    assert p % 2 == 0, "PUBLISH only in even phases"
                    head = None
                    for _ in range(x):
                        n = l.new_node(y)
                        n.a = head
                        head = n
                    new_cells[tid] = head
                elif op == 10:
                    assert p % 2 == 1, "TAKE only in odd phases"
                    l.foreign[y % 4] = cells[x % t]
                elif op == 11:
                    d = l.slots[x % ns]
                    if d is not None:
                        d.b = l.foreign[y % 4]
                elif op == 12:
                    for _ in range(x):
                        l.new_node(2)
                elif op == 13:
                    d = l.slots[x % ns]
                    if d is not None:
                        d.tlen = 2 * y
                elif op == 14:
                    l.hash = (l.hash * 11 + l.checksum(l.foreign[x % 4])) % M
                elif op == 17:
                    l.board[x % 4] = l.new_node(y)
                elif op == 15:
                    ssum = sum(((i * 7 + tid + y) % 251) * (i % 13 + 1) for i in range(x))
                    l.hash = (l.hash * 13 + ssum + x) % M
            for i in range(nslots):
                l.hash = (l.hash * 5 + l.checksum(l.slots[i])) % M
            for i in range(4):
                l.hash = (l.hash * 7 + l.checksum(l.board[i])) % M
        cells = new_cells
    out = ["t %d %d %d" % (tid, locs[tid].hash, locs[tid].next_id) for tid in range(t)]
    out.append("barrier %d" % phases)
    return "\n".join(out) + "\n"


def generate_storm(rng):
    """Garbage storm: 4-6 threads that do little else than allocate short-lived nodes, so that
    the young generation fills up again and again while some thread is still on its way
    through the collect-and-retry ladder of the allocator."""
    t = rng.randint(4, 6)
    phases = rng.randint(1, 2)
    nslots = 2
    code = [[None] * phases for _ in range(t)]
    for p in range(phases):
        for tid in range(t):
            ops = [(0, 0, rng.choice([0, 3]), 0)]
            for _ in range(rng.randint(1, 3)):
                ops.append((4, rng.choice([15000, 30000, 60000]), rng.choice([0, 0, 2]), 0))
                if rng.random() < 0.3:
                    ops.append((5, 0, 0, 0))
            code[tid][p] = ops
    return flatten(t, phases, nslots, code)


def is_storm(script):
    t, phases, nslots, code = parse(script)
    return any(op == 4 and x >= 15000 for th in code for ph in th for (op, x, _, _) in ph)


def generate(rng):
    if rng.random() < 0.12:
        return generate_storm(rng)
    t = rng.randint(2, 5)
    phases = rng.randint(1, 5)
    nslots = rng.choice([2, 4, 8])
    code = [[None] * phases for _ in range(t)]
    heavy_gc = rng.random() < 0.4
    for p in range(phases):
        for tid in range(t):
            ops = []
            n = rng.randint(0, 14)
            for _ in range(n):
                r = rng.random()
                if r < 0.22:
                    ops.append((0, rng.randrange(nslots), rng.choice([0, 1, 3, 16, 100]), 0))
                elif r < 0.40:
                    ops.append((1, rng.randrange(nslots), rng.randrange(nslots), rng.randrange(2)))
                elif r < 0.45:
                    ops.append((2, rng.randrange(nslots), 0, rng.randrange(2)))
                elif r < 0.50:
                    ops.append((3, rng.randrange(nslots), 0, 0))
                elif r < 0.60:
                    ops.append((4, rng.choice([1, 20, 200, 1500]), rng.choice([0, 2, 16]), 0))
                elif r < 0.68:
                    ops.append((5, rng.randrange(nslots), 0, 0))
                elif r < (0.78 if heavy_gc else 0.71):
                    ops.append((rng.choice([6, 7, 7]), 0, 0, 0))
                elif r < 0.82:
                    ops.append((8, 0, 0, 0))
                elif r < 0.88:
                    ops.append((12, rng.choice([1, 30, 300]), 0, 0))
                elif r < 0.91:
                    ops.append((13, rng.randrange(nslots), rng.choice([0, 1, 20, 90]), 0))
                elif r < 0.94:
                    ops.append((15, rng.choice([1, 64, 1000, 4096]), rng.getrandbits(40), 0))
                elif r < 0.97:
                    ops.append((17, rng.randrange(4), rng.choice([0, 1, 3, 16]), 0))
                else:
                    if p % 2 == 0:
                        ops.append((9, rng.choice([0, 1, 3, 10]), rng.choice([0, 2, 8]), 0))
                    else:
                        ops.append((10, rng.randrange(t), rng.randrange(4), 0))
                        ops.append((11, rng.randrange(nslots), rng.randrange(4), 0))
                        if rng.random() < 0.5:
                            ops.append((14, rng.randrange(4), 0, 0))
            code[tid][p] = ops
    if rng.random() < 0.35:
        # board bursts: in some phase one thread forces a full collection (everything is
        # promoted), then ALL threads store fresh nodes into the shared board at the start of
        # the next phase, followed by minor collections
        for _ in range(rng.randint(1, 2)):
            p = rng.randrange(phases)
            code[rng.randrange(t)][p].append((6, 0, 0, 0))
            if p + 1 < phases:
                for tid in range(t):
                    burst = [(17, rng.randrange(4), rng.choice([0, 1, 3]), 0) for _ in range(rng.randint(1, 3))]
                    code[tid][p + 1] = burst + code[tid][p + 1] + [(7, 0, 0, 0)]
    return flatten(t, phases, nslots, code)


def add_snapshots(script, rng):
    """Insert heap-snapshot requests (swiper builds only): after forced collections (the
    concurrent sweeper may still be running) and at random places, on any thread."""
    t, phases, nslots, code = parse(script)
    for tid in range(t):
        for p in range(phases):
            ops = []
            for op in code[tid][p]:
                ops.append(op)
                if (op[0] in (6, 7) and rng.random() < 0.5) or rng.random() < 0.04:
                    ops.append((16, 0, 0, 0))
            code[tid][p] = ops
    return flatten(t, phases, nslots, code)
