"""Tier A: in-process protocol simulators (real dora-runtime protocol code + shuttle)."""
import json, os, subprocess, sys, time, glob
from common import *


def parse_summary(out):
    for line in out.decode(errors="replace").splitlines():
        if line.startswith("SUMMARY "):
            return json.loads(line[8:])
    return None


def determinism_gate(binary, n=1500):
    """Same seeds twice, in different processes and different partitions: the per-execution
    (index, trace hash, steps, violated) lines must be identical."""
    os.makedirs(WORK, exist_ok=True)
    s = seed()
    name = os.path.basename(binary)
    a = os.path.join(WORK, "det-%s-a.txt" % name)
    cmds = [{"cmd": [binary, "--seed", str(s + 1000003), "--from", "0", "--count", str(n), "--trace-hashes", a, "--no-minimise"]}]
    parts = 3
    for w in range(parts):
        cmds.append({"cmd": [binary, "--seed", str(s + 1000003), "--from", str(w), "--stride", str(parts), "--count", str((n + parts - 1) // parts),
                             "--trace-hashes", os.path.join(WORK, "det-%s-b%d.txt" % (name, w)), "--no-minimise"]})
    res = parallel(cmds)
    for rc, out, err in res:
        if rc < 0:
            # an execution aborted (a panic that cannot unwind, or the watchdog): that is a
            # violation, which the search below finds and reports with its scenario - the gate
            # has nothing to compare for the executions after it
            log("determinism gate: a worker aborted (rc=%s); left to the search" % rc)
            return 0
        if rc not in (0, 1):
            harness_error("determinism gate: harness crashed rc=%s %s" % (rc, err.decode(errors="replace")[-2000:]))
    ref = {}
    for line in open(a):
        p = line.split()
        ref[int(p[0])] = line
    checked = 0
    for w in range(parts):
        for line in open(os.path.join(WORK, "det-%s-b%d.txt" % (name, w))):
            idx = int(line.split()[0])
            if idx in ref:
                checked += 1
                if ref[idx] != line:
                    harness_error("determinism gate failed for %s at index %d: %r vs %r" % (name, idx, ref[idx], line))
    stopped_early = any(rc == 1 for rc, _, _ in res)
    if checked < n // 2 and not stopped_early:
        harness_error("determinism gate compared too few executions (%d)" % checked)
    # a gate batch that stopped at a violation is fine: the search below reports it
    return checked


def run_tier_a(prop, harness, tier, quick_s, thorough_s, level_text, real, stub, assumptions, extra_args=(), write=True):
    t0 = time.time()
    rel = build_sim(("harness",))
    binary = os.path.join(rel, harness)
    det = determinism_gate(binary)
    budget = tier_budget(tier, quick_s, thorough_s)
    s = seed()
    os.makedirs(WORK, exist_ok=True)
    for f in glob.glob(os.path.join(WORK, "%s-*" % harness)):
        os.remove(f)
    cmds = []
    for w in range(JOBS):
        cmds.append({"cmd": [binary, "--seed", str(s), "--from", str(w), "--stride", str(JOBS), "--count", "1000000000",
                             "--budget-ms", str(int(budget * 1000)), "--out", os.path.join(WORK, "%s-vio-%d.json" % (harness, w)),
                             "--hash-out", os.path.join(WORK, "%s-hash-%d.bin" % (harness, w))] + list(extra_args)})
    res = parallel(cmds, timeout=budget + 600)
    sums = []
    aborted = []
    for w, (rc, out, err) in enumerate(res):
        sm = parse_summary(out)
        if sm is None or rc not in (0, 1):
            # The worker died. If it left a replay file (violation found, then the process
            # aborted while minimising) or an abort note (a panic that could not unwind through
            # an extern "C" runtime entry), that is a violation, not a harness error.
            vio_file = os.path.join(WORK, "%s-vio-%d.json" % (harness, w))
            note = vio_file + ".abort"
            if os.path.exists(vio_file):
                v = json.load(open(vio_file))
                aborted.append({"class": v["violation_class"], "file": vio_file, "index": v["index"], "message": v["violation"]})
                continue
            if rc < 0 and os.path.exists(note):
                lines = open(note).read().splitlines()
                idx, msg = int(lines[0]), (lines[1] if len(lines) > 1 else "abort")
                p = run([binary, "--seed", str(s), "--emit-scenario", str(idx), "--out", vio_file, "--message", msg])
                if p.returncode == 0 and os.path.exists(vio_file):
                    aborted.append({"class": "abort", "file": vio_file, "index": idx, "message": msg})
                    continue
            harness_error("worker %d of %s crashed rc=%s: %s" % (w, harness, rc, err.decode(errors="replace")[-2000:]))
        sums.append(sm)
    if not sums:
        sums = [{"executions": 0, "choice_points": 0, "preemptions": 0, "probes": {}, "faults": {}, "policies": {}, "samples": [], "violation": None, "wall_ms": 1}]
    # merge
    tot = lambda k: sum(x[k] for x in sums)
    merged = {}
    for key in ("probes", "faults", "policies"):
        m = {}
        for x in sums:
            for k, v in x[key].items():
                m[k] = m.get(k, 0) + v
        merged[key] = m
    distinct = set()
    for w in range(JOBS):
        p = os.path.join(WORK, "%s-hash-%d.bin" % (harness, w))
        if os.path.exists(p):
            data = open(p, "rb").read()
            for i in range(0, len(data), 8):
                distinct.add(data[i:i + 8])
            os.remove(p)
    wall = time.time() - t0
    execs = tot("executions")
    violations = [x["violation"] for x in sums if x["violation"]] + aborted
    exit_code = 0
    reported = []
    if violations:
        violations.sort(key=lambda v: v["index"])
        seen = set()
        for v in violations:
            if v["class"] in seen:
                continue
            seen.add(v["class"])
            rp = save_replay(prop, v["file"])
            # confirm in a fresh process
            try:
                p = run([binary, "--replay", rp], timeout=600)
            except subprocess.TimeoutExpired:
                # the harness has its own watchdog (30 s without progress -> abort); this is
                # only the last line of defence against a replay that never ends
                class _P:
                    returncode, stdout = -9, b""
                p = _P()
            if p.returncode != 1 and not (p.returncode < 0):
                harness_error("violation did not reproduce from its replay file %s (rc=%d): %s" % (rp, p.returncode, p.stdout.decode()[-500:]))
            key = "%s:%s" % (harness, v["class"])
            k = match_known(prop, key)
            if k:
                report_known(prop, k["what"])
            else:
                report_violation(prop, rp)
                log("  class=%s message=%s" % (v["class"], v["message"].splitlines()[0]))
                exit_code = 1
            reported.append({"class": v["class"], "replay": rp, "message": v["message"].splitlines()[0]})
    search_wall = max(x["wall_ms"] for x in sums) / 1000.0
    coverage = {
        "evaluations": execs,
        "distinct_nontrivial": len(distinct),
        "rule": "one evaluation = one simulated execution of a scenario generated from (VERIF_SEED, index) under a scheduling policy drawn from the same seed; "
                "distinct = distinct hashes of (scenario, sequence of (runnable-set size, chosen task) at every decision with more than one runnable task); "
                "non-trivial = at least one preemption was taken (the running task was runnable but another one was chosen)",
        "samples": sums[0]["samples"][:3],
        "simulated_runs": execs,
        "runs_per_hour": int(execs / max(search_wall, 0.001) * 3600),
        "simulated_time_scheduler_steps": tot("choice_points"),
        "preemptions_taken": tot("preemptions"),
        "fault_kinds_fired": merged["faults"],
        "scheduler_policies": merged["policies"],
        "reach_probes": merged["probes"],
        "determinism_gate": {"executions_compared_across_processes_and_partitions": det, "result": "identical"},
        "components_real": real,
        "components_stub": stub,
        "level_text": level_text,
        "violations_reported": reported,
        "workers": JOBS,
        "search_wall_s": round(search_wall, 2),
    }
    if write:
        write_evidence(prop, tier, "exploration", coverage, wall, len(reported), assumptions)
    log("%s/%s: %d executions, %d distinct non-trivial, %d violation class(es), %.1fs" % (prop, harness, execs, len(distinct), len(reported), wall))
    if not write:
        return exit_code, coverage, reported
    return exit_code


def replay_tier_a(harness, path):
    rel = build_sim(("harness",))
    binary = os.path.join(rel, harness)
    p = run([binary, "--replay", path])
    sys.stdout.write(p.stdout.decode())
    if p.returncode < 0:
        print("REPLAY-RESULT violation class=abort (signal %d: a panic inside an extern \"C\" runtime entry cannot unwind)" % -p.returncode)
        return 1
    return p.returncode if p.returncode in (0, 1) else 2
