"""Tier C: process-environment simulator. The node is a process; the seams are an LD_PRELOAD
interposer (getrandom, clocks, write faults on stdout) and a storage-fault layer on the
package file. All decisions come from VERIF_SEED."""
import hashlib, json, os, random, re, subprocess, sys, tempfile, time, threading
from common import *
import tier_b as tb
import model_trapio as mt

ENVDIR = os.path.join(WORK, "env")
INTERPOSER = os.path.join(ENVDIR, "verifenv.so")


def build_interposer():
    os.makedirs(ENVDIR, exist_ok=True)
    p = run(["gcc", "-shared", "-fPIC", "-O2", "-o", INTERPOSER, os.path.join(VERIF, "env", "verifenv.c"), "-ldl"])
    if p.returncode != 0:
        harness_error("interposer build failed: " + p.stderr.decode(errors="replace"))
    return INTERPOSER


def pool_run(make_run, exec_run, classify, budget_s, start=0, max_runs=10**9, stop_on_violation=True):
    """JOBS worker threads pull indices until the budget is used; returns {index: (run, res)}."""
    tstart = time.time()
    lock = threading.Lock()
    state = {"next": start, "stop": False}
    done = {}

    def worker():
        while True:
            with lock:
                if state["stop"] or time.time() - tstart > budget_s or state["next"] - start >= max_runs:
                    return
                i = state["next"]
                state["next"] += 1
            r = make_run(i)
            res = exec_run(r)
            with lock:
                done[i] = (r, res)
                if stop_on_violation and classify(r, res) is not None:
                    state["stop"] = True

    threads = [threading.Thread(target=worker) for _ in range(JOBS)]
    for t in threads:
        t.start()
    for t in threads:
        t.join()
    return done


# ---------------------------------------------------------------------------------- C14

C14_VARIANTS = {}  # driver name -> source path (layout variants of trapio.dora)


def c14_make_run(s, i):
    wl = tb.stream(s, "C14", i, "workload")
    cfg = tb.stream(s, "C14", i, "config")
    # (the concurrent mode, where == 2, runs only under the simulator - c14_b_run - where the
    # interleaving is decided by the seed)
    script = mt.generate(wl, concurrent=False)
    gc = cfg.choice(["swiper", "swiper", "copy", "sweep"])
    cg = cfg.choice(["cannon", "boots"])
    driver = "trapio"
    if C14_VARIANTS and cfg.random() < 0.5:
        # layout variant (only built for the generational collector)
        driver = cfg.choice(sorted(C14_VARIANTS))
        gc = "swiper"
    exp = mt.expected(script, C14_VARIANTS.get(driver))
    mode = cfg.choices(["clean", "recoverable", "fatal", "errfatal"], [3, 5, 2, 2])[0]
    sink = cfg.choice(["pipe", "file"])
    io = None
    if mode == "recoverable":
        kinds = cfg.choice([("short",), ("eintr",), ("short", "eintr")])
        parts = ["seed=%d" % cfg.getrandbits(40)]
        if "short" in kinds:
            parts.append("short=%d" % cfg.choice([50, 300, 700, 950]))
        if "eintr" in kinds:
            parts.append("eintr=%d" % cfg.choice([50, 300, 600]))
        if cfg.random() < 0.5:
            # the same on standard error: the trap report must arrive complete as well
            parts.append("errshort=%d" % cfg.choice([300, 700, 950]))
            parts.append("erreintr=%d" % cfg.choice([0, 300, 600]))
        io = ",".join(parts)
    elif mode == "errfatal":
        # standard error fails for good (full disk, closed pipe) from a byte offset on: the
        # report may be cut short, but the exit status and the program's stdout must not suffer
        io = "seed=%d,errfatal=%s@%d" % (cfg.getrandbits(40), cfg.choice(["ENOSPC", "EPIPE", "EIO"]), cfg.choice([0, 0, 1, 5, 14, 40, 200]))
    elif mode == "fatal":
        total = len(exp["stdout"])
        at = cfg.randint(0, total + 5) if cfg.random() < 0.7 else cfg.choice([0, 1, 1023, 1024, 1025, total])
        io = "seed=%d,fatal=%s@%d" % (cfg.getrandbits(40), cfg.choice(["ENOSPC", "EPIPE", "EAGAIN", "EIO"]), at)
    return {"index": i, "exe": [driver, gc, cg, "real"], "argv": script, "dora_flags": "--max-heap-size=16M", "mode": mode, "sink": sink, "io": io,
            "timeout": 60, "tags": {"gc": gc, "codegen": cg, "layout": driver, "mode": mode, "sink": sink, "trap": mt.parse(script)[2], "thread": mt.parse(script)[0]}}


def c14_execute(r, exes):
    exe = exes[tuple(r["exe"])]
    env = dict(os.environ)
    env["DORA_FLAGS"] = r["dora_flags"]
    env["LD_PRELOAD"] = INTERPOSER
    logf = os.path.join(ENVDIR, "io-%d-%d.log" % (os.getpid(), threading.get_ident()))
    if os.path.exists(logf):
        os.remove(logf)
    env["VERIF_IO_LOG"] = logf
    if r["io"]:
        env["VERIF_IO"] = r["io"]
    else:
        env.pop("VERIF_IO", None)
    args = [exe] + [str(a) for a in r["argv"]]
    t0 = time.time()
    outf = None
    try:
        if r["sink"] == "file":
            outf = tempfile.NamedTemporaryFile(dir=ENVDIR, delete=False)
            p = subprocess.run(args, env=env, stdout=outf, stderr=subprocess.PIPE, timeout=r["timeout"], cwd=ENVDIR)
            outf.close()
            out = open(outf.name, "rb").read()
        else:
            p = subprocess.run(args, env=env, stdout=subprocess.PIPE, stderr=subprocess.PIPE, timeout=r["timeout"], cwd=ENVDIR)
            out = p.stdout
        rc, err, to = p.returncode, p.stderr, False
    except subprocess.TimeoutExpired as e:
        rc, out, err, to = -9, b"", e.stderr or b"", True
    finally:
        if outf is not None and os.path.exists(outf.name):
            os.remove(outf.name)
    fired = {}
    if os.path.exists(logf):
        for line in open(logf):
            k = line.split()[0]
            fired[k] = fired.get(k, 0) + 1
        os.remove(logf)
    return {"rc": rc, "stdout": out, "stderr": err.decode(errors="replace")[:6000], "timeout": to, "fired": fired, "wall": time.time() - t0}


def c14_classify(r, res):
    src = C14_VARIANTS.get(r["exe"][0])
    srcname = os.path.basename(src) if src else "trapio.dora"
    exp = mt.expected(r["argv"], src)
    if res["timeout"]:
        return ("timeout", "no termination within %ds" % r["timeout"])
    out, err, rc = res["stdout"], res["stderr"], res["rc"]
    if mt.parse(r["argv"])[0] == 2:
        nmark = out.count(mt.MARKER)
        out = mt.strip_markers(out)
        if nmark > mt.NMARKERS or (exp["rc"] == 0 and r["mode"] != "fatal" and nmark != mt.NMARKERS):
            return ("stdout-wrong", "%d marker lines of the printer threads, expected %s%d" % (nmark, "" if exp["rc"] == 0 else "at most ", mt.NMARKERS))
    first = err.splitlines()[0] if err.strip() else None
    if r["mode"] == "errfatal":
        # the report itself may be incomplete; everything else must be as without the fault
        if "panicked at" in err:
            return ("panic", "the failing standard error turned the report into a Rust panic: " + err.split("panicked at", 1)[1][:120].strip())
        if out != exp["stdout"]:
            if exp["stdout"].startswith(out):
                return ("stdout-lost", "%d of %d bytes written to standard output before the %s were delivered (standard error failing)" % (len(out), len(exp["stdout"]), "trap" if exp["rc"] else "exit"))
            return ("stdout-wrong", "delivered bytes differ from what the program wrote")
        if rc != exp["rc"]:
            return ("status", "exit status %d, expected %d (standard error failing)" % (rc, exp["rc"]))
        return None
    if r["mode"] == "fatal":
        # deliberately relaxed: an unrecoverable stdout error may end the program in any way,
        # but what was delivered must be a prefix of what the program wrote - never wrong data
        if not exp["stdout"].startswith(out):
            return ("stdout-not-prefix", "delivered %d bytes that are not a prefix of the %d expected" % (len(out), len(exp["stdout"])))
        return None
    if "panicked at" in err:
        loc = re.search(r"panicked at ([^\n]+?):(\d+):\d+", err)
        where = (os.path.basename(loc.group(1)) + ":" + loc.group(2)) if loc else "?"
        return ("panic:" + where, tb.norm_msg(err.split("panicked at", 1)[1][:200]))
    if rc < 0:
        return ("signal:%d" % (-rc), (first or "")[:160])
    if out != exp["stdout"]:
        if exp["stdout"].startswith(out):
            return ("stdout-lost", "%d of %d bytes written before the %s were delivered" % (len(out), len(exp["stdout"]), "trap" if exp["rc"] else "exit"))
        return ("stdout-wrong", "delivered bytes differ from what the program wrote (%d vs %d bytes)" % (len(out), len(exp["stdout"])))
    if rc != exp["rc"]:
        return ("status", "exit status %d, expected %d" % (rc, exp["rc"]))
    if exp["stderr_first"] != first:
        return ("message", "first stderr line %r, expected %r" % (first, exp["stderr_first"]))
    frames = mt.parse_frames(err)
    if exp.get("frames") is not None:
        want = exp["frames"]
        got = [(f, l) for (f, _, l) in frames[:len(want)]]
        if got != want:
            return ("trace", "stack trace %r, expected %r" % (got, want))
        if any(not p.endswith(srcname) for (_, p, _) in frames[:len(want)]):
            return ("trace", "stack trace names a wrong file")
    if exp.get("frames_after_std") is not None:
        want = exp["frames_after_std"]
        k = 0
        while k < len(frames) and not frames[k][1].endswith(srcname):
            k += 1
        got = [(f, l) for (f, _, l) in frames[k:k + len(want)]]
        if got != want or k == 0:
            return ("trace", "stack trace below the standard library frames %r, expected %r" % (got, want))
    return None


def c14_variants(tier):
    """Layout variants of the driver: 0..15 non-trapping statements in front of each failing
    operation shift code sizes and alignments; the report must not depend on them."""
    s = seed()
    vdir = os.path.join(tb.TB, "variants")
    os.makedirs(vdir, exist_ok=True)
    C14_VARIANTS.clear()
    n = 8 if tier == "quick" else 32
    for k in range(n):
        rng = tb.stream(s, "C14", k, "layout")
        pads = [rng.randrange(16) for _ in range(5)]
        name = "trapio_v%d" % k
        path = os.path.join(vdir, name + ".dora")
        mt.make_variant(path, pads)
        C14_VARIANTS[name] = path
    return dict(C14_VARIANTS)


def c14(tier):
    t0 = time.time()
    variants = c14_variants(tier)
    exes = tb.build_executables(["trapio"] + sorted(variants), ["swiper", "copy", "sweep"], ["cannon", "boots"], sim=False, real=True, sources=variants,
                                only=lambda d, gc, cg: d == "trapio" or gc == "swiper")
    build_interposer()
    budget = tier_budget(tier, 45, 900)
    s = seed()
    mk = lambda i: c14_make_run(s, i)
    ex = lambda r: c14_execute(r, exes)
    # determinism gate: same runs twice -> same delivered bytes, status, fired faults
    for i in range(8):
        r = mk(10_000_000 + i)
        a, b = ex(r), ex(r)
        if (a["rc"], a["stdout"], a["fired"]) != (b["rc"], b["stdout"], b["fired"]):
            harness_error("C14 determinism gate failed at run %d" % i)
    done = pool_run(mk, ex, c14_classify, budget, stop_on_violation=False)
    by = {}
    fired = {}
    distinct = set()
    samples = []
    vio = {}
    for i in sorted(done):
        r, res = done[i]
        for k, v in r["tags"].items():
            by["%s=%s" % (k, v)] = by.get("%s=%s" % (k, v), 0) + 1
        for k, v in res["fired"].items():
            fired[k] = fired.get(k, 0) + v
        v = c14_classify(r, res)
        nontrivial = r["mode"] == "clean" or sum(res["fired"].values()) > 0
        if v is None and nontrivial and (r["tags"]["trap"] != 0 or r["mode"] != "clean"):
            distinct.add(hashlib.sha256(json.dumps([r["argv"], r["exe"], r["io"], r["sink"]]).encode()).hexdigest()[:16])
            if len(samples) < 3:
                samples.append({"index": i, "exe": r["exe"], "script": r["argv"], "io_fault_plan": r["io"], "sink": r["sink"], "faults_fired": res["fired"], "exit_status": res["rc"],
                                "stdout_bytes": len(res["stdout"])})
        if v is not None:
            vio.setdefault(v[0], []).append((r, res, v))
    exit_code = 0
    reported = []
    for cls in sorted(vio):
        # minimise: fewest prints, smallest lengths that still show the same class
        r, res, v = min(vio[cls], key=lambda t: (len(t[0]["argv"]), sum(t[0]["argv"])))
        r, res, v = c14_minimise(r, res, v, exes)
        cres = c14_execute(r, exes)
        cv = c14_classify(r, cres)
        if cv is None or cv[0] != cls:
            harness_error("C14 violation %s did not reproduce on replay" % cls)
        rp = save_replay("C14", {"property": "C14", "tier": "C", "run": r, "violation_class": cv[0], "violation": cv[1],
                                 "observed": {"rc": cres["rc"], "stdout_len": len(cres["stdout"]), "stderr_head": cres["stderr"][:1500], "fired": cres["fired"]},
                                 "occurrences_in_batch": len(vio[cls])})
        key = "trapio:%s:%s" % (cv[0], "faultfree" if not r["io"] else r["io"].split(",")[-1].split("=")[0])
        k = match_known("C14", key)
        if k:
            report_known("C14", k["what"])
        else:
            report_violation("C14", rp)
            log("  class=%s detail=%s (seen %d times)" % (cv[0], cv[1], len(vio[cls])))
            exit_code = 1
        reported.append({"class": cv[0], "detail": cv[1], "replay": rp, "key": key, "occurrences": len(vio[cls])})
    # the same driver as a whole simulated executable with concurrent printers and collections
    bcov, brep, bec = c14_tier_b(tier, tier_budget(tier, 35, 600) if not os.environ.get("VERIF_BUDGET_S") else float(os.environ["VERIF_BUDGET_S"]) / 2)
    exit_code = max(exit_code, bec)
    reported += brep
    wall = time.time() - t0
    coverage = {
        "evaluations": len(done) + bcov["runs"],
        "distinct_nontrivial": len(distinct) + bcov["distinct_nontrivial"],
        "tier_B_concurrent_printers": bcov,
        "rule": "one evaluation = one execution of a real (guard-off) executable of the trapio driver on a generated script (prints of lengths around the 1 KiB buffer and 8 KiB pipe boundaries, then one trap kind at a known line in a known call chain, on main or a spawned thread) with sink kind and a stdout fault plan drawn from the seed; "
                "distinct = distinct (script, executable, fault plan, sink); non-trivial = passed its oracle and either a trap was involved or at least one I/O fault fired",
        "samples": samples,
        "simulated_runs": len(done),
        "runs_per_hour": int(len(done) / max(budget, 1) * 3600),
        "fault_kinds_fired": fired,
        "configuration_counts": by,
        "components_real": ["real executables (guard off) built from /repo's working tree by both code generators; real dora-runtime print/println/trap/exit paths; real libc below the interposer"],
        "components_stub": ["write(2) on fd 1 is interposed (short writes, EINTR; separately ENOSPC/EPIPE/EAGAIN/EIO from a byte offset on)", "the reader is the orchestrator (pipe) or a regular file"],
        "determinism_gate": {"runs_executed_twice": 8, "result": "identical"},
        "violations_reported": reported,
        "level_text": "sink kinds x fault kinds enumerated, fault positions and scripts sampled; unrecoverable faults use a deliberately relaxed oracle (delivered bytes must be a prefix)",
    }
    write_evidence("C14", tier, "fault_enumeration", coverage, wall, len(reported),
                   ["only the stdout-delivery clause and the report's invariance for one fixed driver program are decided; trace content over all programs is a pure property (DESIGN section 4 C14)",
                    "write(2) faults are injected below Rust's std, at the libc symbol"])
    log("C14: %d runs, %d distinct non-trivial, %d violation class(es), %.1fs" % (len(done), len(distinct), len(reported), wall))
    return exit_code


def c14_b_run(s, i, fault_free):
    """Whole-executable simulation of the trap driver: the script (prints, then a trap) runs on
    a spawned thread while two printer threads write marker lines and the main thread
    allocates and forces collections; seeded schedule, injected collections."""
    wl = tb.stream(s, "C14", i, "b-workload")
    cfg = tb.stream(s, "C14", i, "b-config")
    where, prints, trap, depth = mt.parse(mt.generate(wl))
    where = wl.choice([2, 2, 2, 1])
    # keep the simulated runs short: at most 3 prints of at most 20000 bytes
    prints = [(k, min(n, 20000)) for (k, n) in prints[:3]]
    if trap in (6, 11):
        trap = wl.choice([1, 2, 3, 9, 10])      # heap exhaustion is C13's subject
    script = mt.make(where, prints, trap, depth)
    exp = mt.expected(script)
    gc = cfg.choice(["swiper", "swiper", "copy", "sweep"])
    cg = cfg.choice(["cannon", "boots"])
    workers = cfg.choice([1, 2, 4])
    flags = ["--max-heap-size=16M", "--gc-worker=%d" % workers]
    if gc == "swiper" and cfg.random() < 0.5:
        flags.append("--gc-young-size=%dM" % cfg.choice([1, 2]))
    faults = tb.draw_faults(cfg, fault_free)
    tb.cap_fault_rates(faults, 4000, gc, 16, False, run_budget_ms=600)
    sim = {"seed": cfg.getrandbits(48), "policy": tb.draw_policy(cfg, 5 + workers, 3000), "hot": 0}
    sim.update(faults)
    e = {"rc": exp["rc"], "stdout": exp["stdout"].decode("utf-8"), "stdout_strip": "#\n", "stdout_strip_max": mt.NMARKERS}
    if exp["stderr_first"]:
        e["stderr_first"] = exp["stderr_first"]
    elif exp["rc"] == 0:
        e["stderr_empty"] = True
    return {"index": i, "exe": ["trapio", gc, cg, "sim"], "argv": script, "dora_flags": " ".join(flags), "sim": sim, "expect": e, "timeout": 60, "fault_free": fault_free,
            "tags": {"gc": gc, "codegen": cg, "where": where, "trap": trap, "policy": sim["policy"].split(":")[0], "fault_free": fault_free}}


def c14_tier_b(tier, budget_s):
    """Returns (coverage, reported, exit_code)."""
    exes = tb.build_executables(["trapio"], ["swiper", "copy", "sweep"], ["cannon", "boots"], sim=True)
    s = seed()
    gate = [c14_b_run(s + 7919, i, i % 2 == 0) for i in range(4)]
    tb.determinism_gate("C14", exes, gate, n=4)
    batch = tb.Batch("C14", exes)
    lock = threading.Lock()
    state = {"next": 0, "stop": False}
    t0 = time.time()
    done = {}

    def worker():
        while True:
            with lock:
                if state["stop"] or time.time() - t0 > budget_s:
                    return
                i = state["next"]
                state["next"] += 1
            run = c14_b_run(s, 2_000_000 + i, i % 5 == 0)
            res = tb.execute(run, exes)
            with lock:
                done[i] = (run, res)
                v = tb.classify(run, res)
                if v is not None and v[0] not in ("timeout", "step-budget"):
                    state["stop"] = True

    ths = [threading.Thread(target=worker) for _ in range(JOBS)]
    for t in ths:
        t.start()
    for t in ths:
        t.join()
    for i in sorted(done):
        batch.account(*done[i])
    exit_code, reported = 0, []
    if batch.violations:
        def expect_fn(argv, run):
            return run["expect"]
        exit_code, reported = tb.handle_violations("C14", batch, exes, None, expect_fn, None)
    c = batch.counters
    cov = {"runs": c["runs"], "distinct_nontrivial": len(batch.distinct), "scheduler_steps": c["decisions"], "preemptions": c["preemptions"],
           "gc_minor_injected": c["gc_minor_injected"], "gc_full_injected": c["gc_full_injected"], "alloc_fail_injected": c["alloc_fail_injected"],
           "stop_the_world_operations": c["stw_operations"], "configuration_counts": batch.by, "samples": batch.samples[:1],
           "what": "the trap driver as a whole simulated executable: the script (prints, then a trap or an exit) on a spawned thread while two printer threads write marker lines and the main thread allocates and forces collections; oracle: exit status, first stderr line, and stdout without the marker lines == model, never a hang"}
    return cov, reported, exit_code


def c14_minimise(r, res, v, exes, max_tests=60):
    cls = v[0]
    cur, cres, cv = r, res, v
    tests = 0

    def attempt(argv, io=None):
        nonlocal tests
        tests += 1
        cand = dict(cur)
        cand["argv"] = argv
        if io is not None:
            cand["io"] = io or None
            if not io:
                cand["mode"] = "clean"
        rr = c14_execute(cand, exes)
        vv = c14_classify(cand, rr)
        if vv is not None and vv[0] == cls:
            return cand, rr, vv
        return None

    progress = True
    while progress and tests < max_tests:
        progress = False
        where, prints, trap, depth = mt.parse(cur["argv"])
        cands = []
        for k in range(len(prints)):
            cands.append(mt.make(where, prints[:k] + prints[k + 1:], trap, depth))
        for k, (kind, n) in enumerate(prints):
            for n2 in (n // 2, n - 1):
                if 0 <= n2 < n:
                    cands.append(mt.make(where, prints[:k] + [(kind, n2)] + prints[k + 1:], trap, depth))
            if kind & 2:
                cands.append(mt.make(where, prints[:k] + [(kind - 2, n)] + prints[k + 1:], trap, depth))
            if kind & 4:
                cands.append(mt.make(where, prints[:k] + [(kind - 4, n)] + prints[k + 1:], trap, depth))
        if depth > 0:
            cands.append(mt.make(where, prints, trap, 0))
        if where != 0:
            cands.append(mt.make(0, prints, trap, depth))
        for argv in cands:
            if tests >= max_tests:
                break
            got = attempt(argv)
            if got:
                cur, cres, cv = got
                progress = True
                break
    if cur["io"] and cur["mode"] == "recoverable":
        got = attempt(cur["argv"], io="")
        if got:
            cur, cres, cv = got
    return cur, cres, cv


def c14_replay(path):
    obj = json.load(open(path))
    r = obj["run"]
    d, gc, cg, kind = r["exe"]
    variants = c14_variants(os.environ.get("VERIF_TIER", "quick") if not d.startswith("trapio_v") or int(d[8:]) < 8 else "thorough")
    exes = tb.build_executables([d], [gc], [cg], sim=False, real=True, sources=variants)
    build_interposer()
    res = c14_execute(r, exes)
    v = c14_classify(r, res)
    if v is None:
        print("REPLAY-RESULT ok")
        return 0
    print("REPLAY-RESULT violation class=%s detail=%s" % v)
    return 1 if v[0] == obj["violation_class"] else 3


# ---------------------------------------------------------------------------------- C15

def sha(path):
    return hashlib.sha256(open(path, "rb").read()).hexdigest()


def c15_corpus():
    """Programs compiled by the C15 check: the four drivers plus a fixed, sorted sample of the
    repository's runtime tests (only files whose reference compile succeeds are kept)."""
    files = [os.path.join(VERIF, "workloads", n + ".dora") for n in ("kitchen", "heapgraph", "sync", "trapio", "exhaust")]
    # a program with four external packages given on the command line (--package NAME PATH):
    # package, module and function numbering must not depend on hash order
    mp = os.path.join(VERIF, "workloads", "multipkg")
    files.insert(1, (os.path.join(mp, "main.dora"), sum([["--package", "p" + n, os.path.join(mp, "p%s.dora" % n)] for n in "abcd"], [])))
    rt = []
    for root, _, names in os.walk(os.path.join(REPO, "test", "rt")):
        for n in names:
            if n.endswith(".dora"):
                rt.append(os.path.join(root, n))
    rt.sort()
    # deterministic thinning: every k-th file
    k = max(1, len(rt) // 40)
    files += rt[::k]
    return files


def c15_build(dora, boots, src, kind, cg, gc, pert, outdir, extra=()):
    """One pipeline run under an environment perturbation. Returns (rc, {artifact: sha}, stderr)."""
    os.makedirs(outdir, exist_ok=True)
    env = {"PATH": os.environ.get("PATH", "/usr/bin:/bin"), "HOME": pert["home"], "LANG": pert["lang"], "TMPDIR": pert["tmpdir"],
           "LD_PRELOAD": INTERPOSER, "VERIF_RANDOM_SEED": str(pert["rseed"]), "VERIF_CLOCK_OFFSET": str(pert["clock"])}
    for i in range(pert["noise"]):
        env["VERIF_NOISE_%d" % i] = "x" * (i * 37 % 101)
    os.makedirs(pert["tmpdir"], exist_ok=True)
    os.makedirs(pert["home"], exist_ok=True)
    for n in pert["neighbours"]:
        with open(os.path.join(outdir, n), "w") as f:
            f.write("neighbour\n")
    out = os.path.join(outdir, pert.get("outname", "artifact"))
    cmd = [dora, "compile", src, "--gc=" + gc] + list(extra)
    cmd += ["--cannon"] if cg == "cannon" else ["--compiler", boots]
    if kind == "package":
        out += ".dora-package"
        cmd += ["-c", "-o", out]
    elif kind == "asm":
        cmd += ["-S", "-o", out]
    else:
        cmd += ["-o", out]
    if pert["aslr_off"]:
        cmd = ["setarch", "-R"] + cmd
    try:
        p = run_group(cmd, env=env, cwd=pert["cwd"], timeout=300)
    except subprocess.TimeoutExpired:
        return -9, {}, "timeout"
    arts = {}
    if p.returncode == 0:
        path = out + ".s" if kind == "asm" else out
        if os.path.exists(path):
            arts[kind] = sha(path)
    # neighbours of the output must be left alone
    for n in pert["neighbours"]:
        q = os.path.join(outdir, n)
        if not os.path.exists(q) or open(q).read() != "neighbour\n":
            arts["clobbered"] = n
    return p.returncode, arts, p.stderr.decode(errors="replace")[-600:]


def c15(tier, replay_index=None):
    import shutil
    t0 = time.time()
    dbg = build_repo(("dora", "dora-runtime", "dora-startup"))
    dora = os.path.join(dbg, "dora")
    build_interposer()
    base = os.path.join(WORK, "c15")
    shutil.rmtree(base, ignore_errors=True)
    os.makedirs(base)
    boots = os.path.join(base, "boots-stage1")
    p = tb.sh([dora, "compile", "--internal-compile-boots", "--cannon", os.path.join(REPO, "pkgs/boots/boots.dora"), "-o", boots])
    if p.returncode != 0:
        harness_error("building boots stage1 failed: " + p.stderr.decode(errors="replace")[-2000:])
    budget = tier_budget(tier, 60, 1200)
    s = seed()
    corpus = c15_corpus()
    shared_tmp = os.path.join(base, "shared-tmp")

    def pert_for(rng, uid, sibling_group=None):
        d = os.path.join(base, "p%s" % uid)
        cwd = os.path.join(d, "cwd", *(["deep"] * rng.randint(0, 3)))
        os.makedirs(cwd, exist_ok=True)
        return {"rseed": rng.getrandbits(60) if sibling_group is None else sibling_group, "clock": rng.choice([0, 86400 * 365 * 5, -86400 * 3000, 1 << 31]),
                "tmpdir": shared_tmp if sibling_group is not None else os.path.join(d, "tmp"), "home": os.path.join(d, "home"), "lang": rng.choice(["C", "C.UTF-8", "en_US.UTF-8", "de_AT.UTF-8"]),
                "noise": rng.randint(0, 30), "neighbours": ["n%d" % k for k in range(rng.randint(0, 4))], "aslr_off": rng.random() < 0.3, "cwd": cwd, "dir": d}

    def task(i):
        rng = tb.stream(s, "C15", i, "config")
        src = corpus[(i // 2) % len(corpus)] if i < 2 * len(corpus) else corpus[i % len(corpus)]
        extra = ()
        if isinstance(src, tuple):
            src, extra = src
        kind = rng.choices(["package", "asm", "exe"], [2, 5, 2])[0]
        cg = rng.choice(["cannon", "boots"])
        if i < 2 * len(corpus):
            # first pass over the corpus: every program once with each code generator
            cg = ["cannon", "boots"][i % 2]
        gc = rng.choice(["swiper", "copy", "sweep", "zero"])
        nbuilds = 3
        sibling = rng.random() < 0.35
        group = rng.getrandbits(60) if sibling else None
        perts = [pert_for(rng, "%d-%d" % (i, k), group) for k in range(nbuilds)]
        results = [None] * nbuilds
        same_dir = sibling and kind == "exe" and rng.random() < 0.6
        for k, pt in enumerate(perts):
            if same_dir:
                # concurrent builds into ONE directory: same stem, different extension
                pt["outname"] = "artifact.v%d" % k
                pt["neighbours"] = []
            elif kind != "asm" and rng.random() < 0.3:
                # a neighbour that shares the stem of the output
                pt["neighbours"] = pt["neighbours"] + ["artifact.s"]

        def one(k):
            outdir = os.path.join(perts[0]["dir"], "out") if same_dir else os.path.join(perts[k]["dir"], "out")
            results[k] = c15_build(dora, boots, src, kind, cg, gc, perts[k], outdir, extra)

        if sibling:
            ths = [threading.Thread(target=one, args=(k,)) for k in range(nbuilds)]
            for t in ths:
                t.start()
            for t in ths:
                t.join()
        else:
            for k in range(nbuilds):
                one(k)
        for pt in perts:
            shutil.rmtree(pt["dir"], ignore_errors=True)
        return {"index": i, "src": src, "extra_args": list(extra), "kind": kind, "cg": cg, "gc": gc, "sibling": sibling, "perts": perts, "results": results}

    def classify(r, res=None):
        rs = r["results"]
        rcs = [x[0] for x in rs]
        if all(rc != 0 for rc in rcs):
            # the program does not compile (a test that expects a compile error): not a build
            return None
        if any(rc != 0 for rc in rcs):
            return ("nondeterministic-failure", "exit statuses %r for identical inputs; %s" % (rcs, [x[2][-160:] for x in rs if x[0] != 0][:1]))
        for x in rs:
            if "clobbered" in x[1]:
                return ("neighbour-clobbered", "the build changed or removed %r next to its output (%s of %s)" % (x[1]["clobbered"], r["kind"], os.path.basename(r["src"])))
        hashes = [x[1].get(r["kind"]) for x in rs]
        if len(set(hashes)) != 1:
            return ("artifact-differs", "%s of %s (%s, %s): %r" % (r["kind"], os.path.basename(r["src"]), r["cg"], r["gc"], [h[:12] if h else None for h in hashes]))
        return None

    if replay_index is not None:
        r = task(replay_index)
        v = classify(r)
        shutil.rmtree(base, ignore_errors=True)
        if v is None:
            print("REPLAY-RESULT ok")
            return 0
        print("REPLAY-RESULT violation class=%s detail=%s" % v)
        return 1
    done = pool_run(task, lambda r: r, lambda r, res: classify(r), budget, stop_on_violation=True)
    evals = 0
    compiled = 0
    distinct = set()
    samples = []
    by = {}
    vio = []
    for i in sorted(done):
        r, _ = done[i]
        evals += len(r["results"])
        v = classify(r)
        if all(x[0] == 0 for x in r["results"]):
            compiled += 1
            distinct.add((r["src"], r["kind"], r["cg"], r["gc"]))
            for k in ("kind", "cg", "gc", "sibling"):
                by["%s=%s" % (k, r[k])] = by.get("%s=%s" % (k, r[k]), 0) + 1
            if len(samples) < 3:
                samples.append({"program": os.path.relpath(r["src"], "/"), "artifact": r["kind"], "codegen": r["cg"], "gc": r["gc"], "sibling_pipelines_sharing_random_stream_and_TMPDIR": r["sibling"],
                                "sha256": r["results"][0][1].get(r["kind"]), "perturbations": [{k: p[k] for k in ("rseed", "clock", "lang", "noise", "neighbours", "aslr_off")} for p in r["perts"]]})
        if v is not None:
            vio.append((r, v))
    chains = []
    exit_code = 0
    reported = []
    # bootstrap chain (thorough, or when the budget allows): stage2 == stage3 under different hash seeds
    if tier == "thorough" or os.environ.get("VERIF_C15_CHAIN") == "1":
        for c in range(3 if tier == "thorough" else 1):
            rng = tb.stream(s, "C15", c, "chain")
            stages = [boots]
            shas = []
            ok = True
            for st in (2, 3):
                outp = os.path.join(base, "chain%d-stage%d" % (c, st))
                env = dict(os.environ)
                env.update({"LD_PRELOAD": INTERPOSER, "VERIF_RANDOM_SEED": str(rng.getrandbits(60)), "VERIF_CLOCK_OFFSET": str(rng.choice([0, 10**8]))})
                p = subprocess.run([dora, "compile", "--internal-compile-boots", "--compiler", stages[-1], os.path.join(REPO, "pkgs/boots/boots.dora"), "-o", outp],
                                   env=env, stdout=subprocess.PIPE, stderr=subprocess.PIPE)
                if p.returncode != 0:
                    vio.append(({"index": -1, "chain": c, "stage": st}, ("bootstrap-failed", "stage %d failed: %s" % (st, p.stderr.decode(errors="replace")[-300:]))))
                    ok = False
                    break
                stages.append(outp)
                shas.append(sha(outp))
            if ok:
                chains.append({"chain": c, "stage2": shas[0], "stage3": shas[1]})
                if shas[0] != shas[1]:
                    vio.append(({"index": -1, "chain": c}, ("bootstrap-differs", "stage2 %s != stage3 %s" % (shas[0][:12], shas[1][:12]))))
            for st in stages[1:]:
                if os.path.exists(st):
                    os.remove(st)
    seen = set()
    for r, v in vio:
        if v[0] in seen:
            continue
        seen.add(v[0])
        rr = {k: r[k] for k in r if k not in ("results",)}
        rp = save_replay("C15", {"property": "C15", "tier": "C", "task": rr, "violation_class": v[0], "violation": v[1],
                                 "results": [(x[0], x[1]) for x in r.get("results", [])]})
        key = "%s:%s" % (v[0], os.path.basename(r.get("src", "chain")))
        k = match_known("C15", key)
        if k:
            report_known("C15", k["what"])
        else:
            report_violation("C15", rp)
            log("  class=%s detail=%s" % v)
            exit_code = 1
        reported.append({"class": v[0], "detail": v[1], "replay": rp})
    shutil.rmtree(base, ignore_errors=True)
    wall = time.time() - t0
    coverage = {
        "evaluations": evals,
        "distinct_nontrivial": len(distinct),
        "rule": "one evaluation = one run of the real compile pipeline (dora compile -> code generator process -> gcc -> link) under an environment perturbation (getrandom stream = hash-map seeds and temp names, clock offset, cwd, HOME, LANG, TMPDIR, environment size, output-directory neighbours, ASLR on/off; in sibling mode three pipelines run concurrently with identical random streams in one TMPDIR); every (program, options) is built 3 times and the sha256 of the artifact must agree; "
                "distinct non-trivial = distinct (program, artifact kind, code generator, collector) that compiled and were compared",
        "samples": samples,
        "program_option_combinations_compared": compiled,
        "corpus_size": len(corpus),
        "configuration_counts": by,
        "bootstrap_chains": chains,
        "fault_kinds_fired": {"hash_seed_variation": evals, "tmp_name_collision_groups": by.get("sibling=True", 0), "clock_jump": evals},
        "runs_per_hour": int(evals / max(wall, 1) * 3600),
        "components_real": ["real dora, dora-cannon-compiler, boots stage1 (built from the working tree), gcc, ld"],
        "components_stub": ["getrandom / clock_gettime / time interposed by env/verifenv.c"],
        "violations_reported": reported,
        "level_text": "seeded sampling of environment perturbations; sibling concurrency is ordered by the OS (cannot cause a false alarm: equal outputs are required under every order)",
    }
    write_evidence("C15", tier, "exploration", coverage, wall, len(reported),
                   ["source paths are absolute and identical across builds; the output path differs between builds (the property allows that the neighbours, not the path, vary - an embedded output path would be reported)",
                    "bootstrap chains only in the thorough tier (3 chains, different hash seeds per stage)"])
    log("C15: %d pipeline runs, %d (program, options) combinations compared, %d chains, %d violation class(es), %.1fs" % (evals, compiled, len(chains), len(reported), wall))
    return exit_code


# ---------------------------------------------------------------------------------- C18

def c18_damage(data, fault):
    kind = fault[0]
    if kind == "truncate":
        return data[:fault[1]]
    if kind == "bitflip":
        b = bytearray(data)
        b[fault[1]] ^= 1 << fault[2]
        return bytes(b)
    if kind == "zero_block":
        b = bytearray(data)
        off, n = fault[1], fault[2]
        b[off:off + n] = bytes(min(n, len(b) - off))
        return bytes(b)
    if kind == "dup_block":
        off, n = fault[1], fault[2]
        return data[:off + n] + data[off:off + n] + data[off + n:]
    if kind == "garbage_tail":
        return data + bytes(fault[1])
    raise ValueError(kind)


def c18(tier, replay_case=None):
    import shutil, resource
    t0 = time.time()
    dbg = build_repo(("dora", "dora-runtime", "dora-startup"))
    rel = build_sim(("harness",))
    dora = os.path.join(dbg, "dora")
    cannon = os.path.join(dbg, "dora-cannon-compiler")
    pkgrt = os.path.join(rel, "pkgrt")
    base = os.path.join(WORK, "c18")
    shutil.rmtree(base, ignore_errors=True)
    os.makedirs(base)
    boots = os.path.join(base, "boots-stage1")
    p = tb.sh([dora, "compile", "--internal-compile-boots", "--cannon", os.path.join(REPO, "pkgs/boots/boots.dora"), "-o", boots])
    if p.returncode != 0:
        harness_error("building boots stage1 failed")
    budget = tier_budget(tier, 60, 1200)
    s = seed()
    tiny = os.path.join(base, "tiny.dora")
    with open(tiny, "w") as f:
        f.write("fn main() { println(\"hi\"); }\n")
    sources = {"tiny": tiny, "trapio": os.path.join(VERIF, "workloads", "trapio.dora"), "sync": os.path.join(VERIF, "workloads", "sync.dora")}

    def limits():
        resource.setrlimit(resource.RLIMIT_AS, (6 << 30, 6 << 30))
        resource.setrlimit(resource.RLIMIT_CORE, (0, 0))

    def consume(consumer, pkg, out):
        if consumer == "cannon":
            cmd = [cannon, pkg, "-o", out]
        elif consumer == "boots":
            cmd = [boots, pkg, "-o", out]
        elif consumer == "dora":
            cmd = [dora, "compile", pkg, "--cannon", "-S", "-o", out[:-2]]
        else:
            cmd = [pkgrt, pkg]
        try:
            p = run_group(cmd, timeout=120, preexec_fn=limits, cwd=base)
        except subprocess.TimeoutExpired:
            return {"rc": -9, "timeout": True, "stderr": "", "stdout": "", "sha": None}
        art = sha(out) if consumer != "decoder" and p.returncode == 0 and os.path.exists(out) else None
        return {"rc": p.returncode, "timeout": False, "stderr": p.stderr.decode(errors="replace")[:3000], "stdout": p.stdout.decode(errors="replace")[:300], "sha": art}

    # fault-free configuration first
    packages = {}
    baseline = {}
    ff_checks = 0
    ff_violations = []
    for name, src in sources.items():
        pkg = os.path.join(base, name + ".dora-package")
        p = tb.sh([dora, "compile", "-c", src, "-o", pkg])
        if p.returncode != 0:
            harness_error("cannot build package for %s: %s" % (name, p.stderr.decode(errors="replace")[-500:]))
        packages[name] = open(pkg, "rb").read()
        r = consume("decoder", pkg, None)
        ff_checks += 1
        if r["rc"] != 0:
            ff_violations.append(({"program": name}, ("roundtrip", "encode(decode(package)) differs or was refused: %s" % r["stdout"])))
        for consumer in ("cannon", "boots", "dora"):
            out = os.path.join(base, "%s-%s-base.s" % (name, consumer))
            r = consume(consumer, pkg, out)
            if r["rc"] != 0 or r["sha"] is None:
                harness_error("consumer %s failed on the undamaged package of %s: %s" % (consumer, name, r["stderr"][-300:]))
            baseline[(name, consumer)] = r["sha"]
        # building an executable from the package == building it directly from the source
        a, b = os.path.join(base, name + "-src.exe"), os.path.join(base, name + "-pkg.exe")
        pa = tb.sh([dora, "compile", "--cannon", src, "-o", a])
        pb = tb.sh([dora, "compile", "--cannon", pkg, "-o", b])
        ff_checks += 1
        if pa.returncode != 0 or pb.returncode != 0:
            harness_error("executable build failed for %s" % name)
        if sha(a) != sha(b):
            ff_violations.append(({"program": name}, ("package-vs-source", "executable built from the package differs from the one built from the source")))
        os.remove(a)
        os.remove(b)

    def make(i):
        rng = tb.stream(s, "C18", i, "fault")
        name = rng.choices(list(sources), [3, 2, 1])[0]
        data = packages[name]
        n = len(data)
        kind = rng.choices(["truncate", "bitflip", "zero_block", "dup_block", "garbage_tail"], [4, 8, 2, 2, 1])[0]
        if kind == "truncate":
            fault = ("truncate", rng.choice([0, 1, n - 1, n // 2, rng.randrange(n), rng.randrange(min(n, 4096))]))
        elif kind == "bitflip":
            # uniform over the file, with extra weight on the first bytes (lengths, ids) and on
            # the last bytes (end of the encoding and the integrity trailer)
            r = rng.random()
            pos = rng.randrange(n) if r < 0.6 else (rng.randrange(min(n, 2048)) if r < 0.75 else n - 1 - rng.randrange(min(n, 24)))
            fault = ("bitflip", pos, rng.randrange(8))
        elif kind == "zero_block":
            blk = rng.choice([512, 4096])
            fault = ("zero_block", (rng.randrange(n) // blk) * blk, blk)
        elif kind == "dup_block":
            blk = rng.choice([512, 4096])
            fault = ("dup_block", (rng.randrange(n) // blk) * blk, blk)
        else:
            fault = ("garbage_tail", rng.choice([1, 8, 4096]))
        consumer = rng.choices(["decoder", "cannon", "boots", "dora"], [4, 3, 2, 2])[0]
        return {"index": i, "program": name, "fault": list(fault), "consumer": consumer}

    def execute(r):
        data = c18_damage(packages[r["program"]], tuple(r["fault"]))
        tag = "%d-%d" % (os.getpid(), threading.get_ident())
        pkg = os.path.join(base, "dmg-%s.dora-package" % tag)
        out = os.path.join(base, "dmg-%s.s" % tag)
        with open(pkg, "wb") as f:
            f.write(data)
        if os.path.exists(out):
            os.remove(out)
        res = consume(r["consumer"], pkg, out)
        res["unchanged"] = data == packages[r["program"]]
        for f in (pkg, out):
            if os.path.exists(f):
                os.remove(f)
        return res

    def classify(r, res):
        if res["timeout"]:
            return ("hang", "consumer %s did not terminate on %s" % (r["consumer"], r["fault"]))
        err = res["stderr"]
        if "panicked at" in err:
            loc = re.search(r"panicked at ([^\n]+?):(\d+):\d+", err)
            where = (os.path.basename(loc.group(1)) + ":" + loc.group(2)) if loc else "?"
            return ("panic:" + where, tb.norm_msg(err.split("panicked at", 1)[1][:200]))
        if res["rc"] < 0:
            return ("signal:%d" % -res["rc"], err[:160])
        if r["consumer"] == "decoder":
            # 0 = accepted and re-encodes to the damaged bytes, 1 = accepted but re-encodes
            # differently, 2 = refused. Accepting bytes that differ from what was written means
            # a different program than the one that was encoded got through.
            if res["rc"] in (0, 1) and not res["unchanged"]:
                return ("corruption-accepted", "the decoder accepted a damaged package (%s)" % (r["fault"],))
            return None
        if res["rc"] != 0:
            if len([l for l in err.strip().splitlines() if l.strip()]) > 4:
                return ("noisy-refusal", "refusal is not a short error message: %r" % err[:200])
            return None
        if res["sha"] != baseline[(r["program"], r["consumer"])]:
            return ("wrong-program", "consumer %s accepted the damaged package (%s) and produced a different artifact" % (r["consumer"], r["fault"]))
        return None

    if replay_case is not None:
        res = execute(replay_case)
        v = classify(replay_case, res)
        if v is None and replay_case.get("fault", [""])[0] == "truncate" and replay_case.get("consumer") == "decoder" and res["rc"] == 0:
            v = ("truncation-accepted", "truncated package accepted by the decoder")
        shutil.rmtree(base, ignore_errors=True)
        if v is None:
            print("REPLAY-RESULT ok (exit status %s)" % res["rc"])
            return 0
        print("REPLAY-RESULT violation class=%s detail=%s" % v)
        return 1

    # in-process fault sweep through the real decoder (helper binary): truncations of every
    # package (every byte in thorough, strided in quick), every bit of the first and last 64
    # bytes, one bit of every k-th byte in between
    trunc_done = 0
    flip_done = 0
    trunc_vio = []
    small = min(packages, key=lambda k: len(packages[k]))
    stride = 1 if tier == "thorough" else 13
    fstride = 1 if tier == "thorough" else 17
    for pname in packages:
        pkgpath = os.path.join(base, pname + ".dora-package")
        p = run_group([pkgrt, "--sweep", pkgpath, str(stride if pname == small else stride * 7), str(fstride)], timeout=1200, cwd=base)
        text = p.stdout.decode(errors="replace")
        m = re.search(r"SWEEP truncations=(\d+) flips=(\d+) offending=(\d+)", text)
        if not m:
            harness_error("decoder sweep failed for %s: rc=%s %s" % (pname, p.returncode, p.stderr.decode(errors="replace")[-300:]))
        trunc_done += int(m.group(1))
        flip_done += int(m.group(2))
        for line in text.splitlines():
            parts = line.split()
            if parts and parts[0] in ("ACCEPTED", "PANIC"):
                fault = ["truncate", int(parts[2])] if parts[1] == "truncate" else ["bitflip", int(parts[2]), int(parts[3])]
                r = {"index": -1, "program": pname, "fault": fault, "consumer": "decoder"}
                cls = "corruption-accepted" if parts[0] == "ACCEPTED" else "panic:decoder"
                if fault[0] == "truncate" and parts[0] == "ACCEPTED":
                    cls = "truncation-accepted"
                trunc_vio.append((r, None, (cls, "the decoder %s a damaged package (%s)" % ("accepted" if parts[0] == "ACCEPTED" else "panicked on", fault))))

    done = pool_run(make, execute, classify, max(5, budget - (time.time() - t0)), stop_on_violation=False)
    fired = {}
    outcome = {"refused": 0, "accepted_identical": 0, "decoder_accepted": 0}
    distinct = set()
    samples = []
    vio = [(r, None, v) for (r, v) in ff_violations] + trunc_vio
    for i in sorted(done):
        r, res = done[i]
        fired[r["fault"][0]] = fired.get(r["fault"][0], 0) + 1
        v = classify(r, res)
        if v is not None:
            vio.append((r, res, v))
            continue
        distinct.add((r["program"], tuple(r["fault"]), r["consumer"]))
        if res["rc"] != 0:
            outcome["refused"] += 1
        elif r["consumer"] == "decoder":
            outcome["decoder_accepted"] += 1
        else:
            outcome["accepted_identical"] += 1
        if len(samples) < 4 and (res["rc"] != 0) == (len(samples) % 2 == 0):
            samples.append({"program": r["program"], "fault": r["fault"], "consumer": r["consumer"], "exit_status": res["rc"],
                            "stderr": res["stderr"].strip()[:160], "artifact_identical": res["rc"] == 0})
    exit_code = 0
    reported = []
    seen = set()
    for r, res, v in vio:
        key = "%s:%s:%s" % (r.get("consumer", "pipeline"), v[0], r.get("fault", ["-"])[0])
        if key in seen:
            continue
        seen.add(key)
        if res is not None:
            cres = execute(r)
            cv = classify(r, cres)
            if (cv is None or cv[0] != v[0]) and v[0] not in ("truncation-accepted",):
                harness_error("C18 violation %s did not reproduce" % (v,))
        rp = save_replay("C18", {"property": "C18", "tier": "C", "case": r, "violation_class": v[0], "violation": v[1]})
        k = match_known("C18", key)
        if k:
            report_known("C18", k["what"])
        else:
            report_violation("C18", rp)
            log("  key=%s detail=%s" % (key, v[1]))
            exit_code = 1
        reported.append({"class": v[0], "detail": v[1], "replay": rp, "key": key, "occurrences": sum(1 for x in vio if x[2][0] == v[0])})
    shutil.rmtree(base, ignore_errors=True)
    wall = time.time() - t0
    coverage = {
        "evaluations": len(done) + trunc_done + flip_done + ff_checks,
        "distinct_nontrivial": len(distinct) + trunc_done + flip_done,
        "rule": "one evaluation = one damaged package (truncate@k, bitflip@(byte,bit), zeroed 512/4096-byte block, duplicated block, garbage tail) of a package written by the real front end, read by one real consumer (decoder helper linked against dora-bytecode, dora-cannon-compiler, boots compiler, dora compile <pkg>); plus the strided/exhaustive single-byte truncation sweep of the smallest package through the decoder; plus the fault-free checks (re-encode == bytes, package->executable == source->executable); "
                "distinct non-trivial = distinct (package, fault, consumer) whose outcome was 'refused cleanly' or 'accepted with identical artifact'",
        "samples": samples,
        "exhaustive": False,
        "truncation_sweep": {"packages": sorted(packages), "stride_smallest_package": stride, "positions": trunc_done},
        "bitflip_sweep": {"packages": sorted(packages), "every_bit_of_first_and_last_64_bytes_of_every_package": True, "flips": flip_done},
        "fault_kinds_fired": fired,
        "outcomes": outcome,
        "fault_free_checks": ff_checks,
        "runs_per_hour": int((len(done) + trunc_done) / max(wall, 1) * 3600),
        "components_real": ["packages written by the real dora compile -c", "real decoders: dora-bytecode (helper), dora-cannon-compiler, boots stage1, dora compile <package>"],
        "components_stub": ["the storage medium: damage is applied to the file between writer and reader"],
        "violations_reported": reported,
        "level_text": "fault kinds enumerated, positions sampled (truncation: strided in quick, exhaustive in thorough for the smallest package)",
    }
    write_evidence("C18", tier, "fault_enumeration", coverage, wall, len(reported),
                   ["only the fault_sequences part of C18 is decided here; the bytecode writer/reader round trip over random instruction sequences is a pure function (not a simulation target)",
                    "consumers run under RLIMIT_AS = 6 GiB so that a corrupted length prefix cannot exhaust the machine"])
    log("C18: %d damaged-package runs + %d truncation points, outcomes %s, %d violation class(es), %.1fs" % (len(done), trunc_done, outcome, len(reported), wall))
    return exit_code


def c18_replay(path):
    obj = json.load(open(path))
    case = obj["case"]
    if "fault" not in case:
        print("REPLAY-RESULT this replay describes a fault-free pipeline check; run bin/check C18 instead")
        return 2
    return c18("quick", replay_case=case)


def c15_replay(path):
    obj = json.load(open(path))
    idx = obj.get("task", {}).get("index", -1)
    if idx < 0:
        print("REPLAY-RESULT bootstrap-chain violations are replayed by bin/check C15 --tier thorough")
        return 2
    return c15("quick", replay_index=idx)
