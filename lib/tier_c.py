"""Tier C: process-environment simulator. The node is a process; the seams are an LD_PRELOAD
interposer (getrandom, clocks, write faults on stdout) and a storage-fault layer on the
package file. All decisions come from VERIF_SEED."""
import hashlib, json, os, random, re, subprocess, sys, tempfile, time, threading
from common import *
import tier_b as tb
import model_trapio as mt

ENVDIR = os.path.join(WORK, "env")
INTERPOSER = os.path.join(ENVDIR, "verifenv.so")


def build_interposer():
    os.makedirs(ENVDIR, exist_ok=True)
    p = run(["gcc", "-shared", "-fPIC", "-O2", "-o", INTERPOSER, os.path.join(VERIF, "env", "verifenv.c"), "-ldl"])
    if p.returncode != 0:
        harness_error("interposer build failed: " + p.stderr.decode(errors="replace"))
    return INTERPOSER


def pool_run(make_run, exec_run, classify, budget_s, start=0, max_runs=10**9, stop_on_violation=True):
    """JOBS worker threads pull indices until the budget is used; returns {index: (run, res)}."""
    tstart = time.time()
    lock = threading.Lock()
    state = {"next": start, "stop": False}
    done = {}

    def worker():
        while True:
            with lock:
                if state["stop"] or time.time() - tstart > budget_s or state["next"] - start >= max_runs:
                    return
                i = state["next"]
                state["next"] += 1
            r = make_run(i)
            res = exec_run(r)
            with lock:
                done[i] = (r, res)
                if stop_on_violation and classify(r, res) is not None:
                    state["stop"] = True

    threads = [threading.Thread(target=worker) for _ in range(JOBS)]
    for t in threads:
        t.start()
    for t in threads:
        t.join()
    return done


# ---------------------------------------------------------------------------------- C14

def c14_make_run(s, i):
    wl = tb.stream(s, "C14", i, "workload")
    cfg = tb.stream(s, "C14", i, "config")
    script = mt.generate(wl)
    exp = mt.expected(script)
    gc = cfg.choice(["swiper", "swiper", "copy", "sweep"])
    cg = cfg.choice(["cannon", "boots"])
    mode = cfg.choices(["clean", "recoverable", "fatal"], [3, 5, 2])[0]
    sink = cfg.choice(["pipe", "file"])
    io = None
    if mode == "recoverable":
        kinds = cfg.choice([("short",), ("eintr",), ("short", "eintr")])
        parts = ["seed=%d" % cfg.getrandbits(40)]
        if "short" in kinds:
            parts.append("short=%d" % cfg.choice([50, 300, 700, 950]))
        if "eintr" in kinds:
            parts.append("eintr=%d" % cfg.choice([50, 300, 600]))
        io = ",".join(parts)
    elif mode == "fatal":
        total = len(exp["stdout"])
        at = cfg.randint(0, total + 5) if cfg.random() < 0.7 else cfg.choice([0, 1, 1023, 1024, 1025, total])
        io = "seed=%d,fatal=%s@%d" % (cfg.getrandbits(40), cfg.choice(["ENOSPC", "EPIPE", "EAGAIN", "EIO"]), at)
    return {"index": i, "exe": ["trapio", gc, cg, "real"], "argv": script, "dora_flags": "--max-heap-size=16M", "mode": mode, "sink": sink, "io": io,
            "timeout": 60, "tags": {"gc": gc, "codegen": cg, "mode": mode, "sink": sink, "trap": mt.parse(script)[2], "thread": mt.parse(script)[0]}}


def c14_execute(r, exes):
    exe = exes[tuple(r["exe"])]
    env = dict(os.environ)
    env["DORA_FLAGS"] = r["dora_flags"]
    env["LD_PRELOAD"] = INTERPOSER
    logf = os.path.join(ENVDIR, "io-%d-%d.log" % (os.getpid(), threading.get_ident()))
    if os.path.exists(logf):
        os.remove(logf)
    env["VERIF_IO_LOG"] = logf
    if r["io"]:
        env["VERIF_IO"] = r["io"]
    else:
        env.pop("VERIF_IO", None)
    args = [exe] + [str(a) for a in r["argv"]]
    t0 = time.time()
    outf = None
    try:
        if r["sink"] == "file":
            outf = tempfile.NamedTemporaryFile(dir=ENVDIR, delete=False)
            p = subprocess.run(args, env=env, stdout=outf, stderr=subprocess.PIPE, timeout=r["timeout"], cwd=ENVDIR)
            outf.close()
            out = open(outf.name, "rb").read()
        else:
            p = subprocess.run(args, env=env, stdout=subprocess.PIPE, stderr=subprocess.PIPE, timeout=r["timeout"], cwd=ENVDIR)
            out = p.stdout
        rc, err, to = p.returncode, p.stderr, False
    except subprocess.TimeoutExpired as e:
        rc, out, err, to = -9, b"", e.stderr or b"", True
    finally:
        if outf is not None and os.path.exists(outf.name):
            os.remove(outf.name)
    fired = {}
    if os.path.exists(logf):
        for line in open(logf):
            k = line.split()[0]
            fired[k] = fired.get(k, 0) + 1
        os.remove(logf)
    return {"rc": rc, "stdout": out, "stderr": err.decode(errors="replace")[:6000], "timeout": to, "fired": fired, "wall": time.time() - t0}


def c14_classify(r, res):
    exp = mt.expected(r["argv"])
    if res["timeout"]:
        return ("timeout", "no termination within %ds" % r["timeout"])
    out, err, rc = res["stdout"], res["stderr"], res["rc"]
    first = err.splitlines()[0] if err.strip() else None
    if r["mode"] == "fatal":
        # deliberately relaxed: an unrecoverable stdout error may end the program in any way,
        # but what was delivered must be a prefix of what the program wrote - never wrong data
        if not exp["stdout"].startswith(out):
            return ("stdout-not-prefix", "delivered %d bytes that are not a prefix of the %d expected" % (len(out), len(exp["stdout"])))
        return None
    if "panicked at" in err:
        loc = re.search(r"panicked at ([^\n]+?):(\d+):\d+", err)
        where = (os.path.basename(loc.group(1)) + ":" + loc.group(2)) if loc else "?"
        return ("panic:" + where, tb.norm_msg(err.split("panicked at", 1)[1][:200]))
    if rc < 0:
        return ("signal:%d" % (-rc), (first or "")[:160])
    if out != exp["stdout"]:
        if exp["stdout"].startswith(out):
            return ("stdout-lost", "%d of %d bytes written before the %s were delivered" % (len(out), len(exp["stdout"]), "trap" if exp["rc"] else "exit"))
        return ("stdout-wrong", "delivered bytes differ from what the program wrote (%d vs %d bytes)" % (len(out), len(exp["stdout"])))
    if rc != exp["rc"]:
        return ("status", "exit status %d, expected %d" % (rc, exp["rc"]))
    if exp["stderr_first"] != first:
        return ("message", "first stderr line %r, expected %r" % (first, exp["stderr_first"]))
    frames = mt.parse_frames(err)
    if exp.get("frames") is not None:
        want = exp["frames"]
        got = [(f, l) for (f, _, l) in frames[:len(want)]]
        if got != want:
            return ("trace", "stack trace %r, expected %r" % (got, want))
        if any(not p.endswith("trapio.dora") for (_, p, _) in frames[:len(want)]):
            return ("trace", "stack trace names a wrong file")
    if exp.get("frames_after_std") is not None:
        want = exp["frames_after_std"]
        k = 0
        while k < len(frames) and not frames[k][1].endswith("trapio.dora"):
            k += 1
        got = [(f, l) for (f, _, l) in frames[k:k + len(want)]]
        if got != want or k == 0:
            return ("trace", "stack trace below the standard library frames %r, expected %r" % (got, want))
    return None


def c14(tier):
    t0 = time.time()
    exes = tb.build_executables(["trapio"], ["swiper", "copy", "sweep"], ["cannon", "boots"], sim=False, real=True)
    build_interposer()
    budget = tier_budget(tier, 45, 900)
    s = seed()
    mk = lambda i: c14_make_run(s, i)
    ex = lambda r: c14_execute(r, exes)
    # determinism gate: same runs twice -> same delivered bytes, status, fired faults
    for i in range(8):
        r = mk(10_000_000 + i)
        a, b = ex(r), ex(r)
        if (a["rc"], a["stdout"], a["fired"]) != (b["rc"], b["stdout"], b["fired"]):
            harness_error("C14 determinism gate failed at run %d" % i)
    done = pool_run(mk, ex, c14_classify, budget, stop_on_violation=False)
    by = {}
    fired = {}
    distinct = set()
    samples = []
    vio = {}
    for i in sorted(done):
        r, res = done[i]
        for k, v in r["tags"].items():
            by["%s=%s" % (k, v)] = by.get("%s=%s" % (k, v), 0) + 1
        for k, v in res["fired"].items():
            fired[k] = fired.get(k, 0) + v
        v = c14_classify(r, res)
        nontrivial = r["mode"] == "clean" or sum(res["fired"].values()) > 0
        if v is None and nontrivial and (r["tags"]["trap"] != 0 or r["mode"] != "clean"):
            distinct.add(hashlib.sha256(json.dumps([r["argv"], r["exe"], r["io"], r["sink"]]).encode()).hexdigest()[:16])
            if len(samples) < 3:
                samples.append({"index": i, "exe": r["exe"], "script": r["argv"], "io_fault_plan": r["io"], "sink": r["sink"], "faults_fired": res["fired"], "exit_status": res["rc"],
                                "stdout_bytes": len(res["stdout"])})
        if v is not None:
            vio.setdefault(v[0], []).append((r, res, v))
    exit_code = 0
    reported = []
    for cls in sorted(vio):
        # minimise: fewest prints, smallest lengths that still show the same class
        r, res, v = min(vio[cls], key=lambda t: (len(t[0]["argv"]), sum(t[0]["argv"])))
        r, res, v = c14_minimise(r, res, v, exes)
        cres = c14_execute(r, exes)
        cv = c14_classify(r, cres)
        if cv is None or cv[0] != cls:
            harness_error("C14 violation %s did not reproduce on replay" % cls)
        rp = save_replay("C14", {"property": "C14", "tier": "C", "run": r, "violation_class": cv[0], "violation": cv[1],
                                 "observed": {"rc": cres["rc"], "stdout_len": len(cres["stdout"]), "stderr_head": cres["stderr"][:1500], "fired": cres["fired"]},
                                 "occurrences_in_batch": len(vio[cls])})
        key = "trapio:%s:%s" % (cv[0], "faultfree" if not r["io"] else r["io"].split(",")[-1].split("=")[0])
        k = match_known("C14", key)
        if k:
            report_known("C14", k["what"])
        else:
            report_violation("C14", rp)
            log("  class=%s detail=%s (seen %d times)" % (cv[0], cv[1], len(vio[cls])))
            exit_code = 1
        reported.append({"class": cv[0], "detail": cv[1], "replay": rp, "key": key, "occurrences": len(vio[cls])})
    wall = time.time() - t0
    coverage = {
        "evaluations": len(done),
        "distinct_nontrivial": len(distinct),
        "rule": "one evaluation = one execution of a real (guard-off) executable of the trapio driver on a generated script (prints of lengths around the 1 KiB buffer and 8 KiB pipe boundaries, then one trap kind at a known line in a known call chain, on main or a spawned thread) with sink kind and a stdout fault plan drawn from the seed; "
                "distinct = distinct (script, executable, fault plan, sink); non-trivial = passed its oracle and either a trap was involved or at least one I/O fault fired",
        "samples": samples,
        "simulated_runs": len(done),
        "runs_per_hour": int(len(done) / max(budget, 1) * 3600),
        "fault_kinds_fired": fired,
        "configuration_counts": by,
        "components_real": ["real executables (guard off) built from /repo's working tree by both code generators; real dora-runtime print/println/trap/exit paths; real libc below the interposer"],
        "components_stub": ["write(2) on fd 1 is interposed (short writes, EINTR; separately ENOSPC/EPIPE/EAGAIN/EIO from a byte offset on)", "the reader is the orchestrator (pipe) or a regular file"],
        "determinism_gate": {"runs_executed_twice": 8, "result": "identical"},
        "violations_reported": reported,
        "level_text": "sink kinds x fault kinds enumerated, fault positions and scripts sampled; unrecoverable faults use a deliberately relaxed oracle (delivered bytes must be a prefix)",
    }
    write_evidence("C14", tier, "fault_enumeration", coverage, wall, len(reported),
                   ["only the stdout-delivery clause and the report's invariance for one fixed driver program are decided; trace content over all programs is a pure property (DESIGN section 4 C14)",
                    "write(2) faults are injected below Rust's std, at the libc symbol"])
    log("C14: %d runs, %d distinct non-trivial, %d violation class(es), %.1fs" % (len(done), len(distinct), len(reported), wall))
    return exit_code


def c14_minimise(r, res, v, exes, max_tests=60):
    cls = v[0]
    cur, cres, cv = r, res, v
    tests = 0

    def attempt(argv, io=None):
        nonlocal tests
        tests += 1
        cand = dict(cur)
        cand["argv"] = argv
        if io is not None:
            cand["io"] = io or None
            if not io:
                cand["mode"] = "clean"
        rr = c14_execute(cand, exes)
        vv = c14_classify(cand, rr)
        if vv is not None and vv[0] == cls:
            return cand, rr, vv
        return None

    progress = True
    while progress and tests < max_tests:
        progress = False
        where, prints, trap, depth = mt.parse(cur["argv"])
        cands = []
        for k in range(len(prints)):
            cands.append(mt.make(where, prints[:k] + prints[k + 1:], trap, depth))
        for k, (kind, n) in enumerate(prints):
            for n2 in (n // 2, n - 1):
                if 0 <= n2 < n:
                    cands.append(mt.make(where, prints[:k] + [(kind, n2)] + prints[k + 1:], trap, depth))
            if kind >= 2:
                cands.append(mt.make(where, prints[:k] + [(kind - 2, n)] + prints[k + 1:], trap, depth))
        if depth > 0:
            cands.append(mt.make(where, prints, trap, 0))
        if where != 0:
            cands.append(mt.make(0, prints, trap, depth))
        for argv in cands:
            if tests >= max_tests:
                break
            got = attempt(argv)
            if got:
                cur, cres, cv = got
                progress = True
                break
    if cur["io"] and cur["mode"] == "recoverable":
        got = attempt(cur["argv"], io="")
        if got:
            cur, cres, cv = got
    return cur, cres, cv


def c14_replay(path):
    obj = json.load(open(path))
    r = obj["run"]
    d, gc, cg, kind = r["exe"]
    exes = tb.build_executables([d], [gc], [cg], sim=False, real=True)
    build_interposer()
    res = c14_execute(r, exes)
    v = c14_classify(r, res)
    if v is None:
        print("REPLAY-RESULT ok")
        return 0
    print("REPLAY-RESULT violation class=%s detail=%s" % v)
    return 1 if v[0] == obj["violation_class"] else 3
