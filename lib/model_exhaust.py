"""Reference model for workloads/exhaust.dora."""
ESZ = {0: 1, 1: 4, 2: 8, 3: 8, 4: 16, 5: 8, 6: 8, 7: 24}
I64MAX = 2**63 - 1


def expected(script, heap_bytes, gc):
    """Returns dict(rc=[acceptable statuses], stdout={status: text}, stderr_first={status: text})."""
    mode, where, nby, a, b = script
    done = "done %d\n" % (40 * nby)
    oom = (106, "start\n", "out of memory")
    so = (107, "start\n", "stack overflow")
    if mode == 0:
        esz = ESZ.get(a, 24)
        if b < 0:
            return [oom]
        total = b * esz + 16
        ok = (0, "start\nok %d\n%s" % (b, done), None)
        if total > I64MAX or total >= heap_bytes:
            return [oom]
        if total <= heap_bytes // 16:
            return [ok]
        return [ok, oom]
    if mode == 1:
        return [oom]
    if mode == 2:
        if a == 6 and b > 0:
            # every frame retains b objects: the heap may legitimately run out first
            return [so, oom]
        return [so]
    rounds = a * 1000
    s = sum(range(rounds)) if b > 0 else 0
    return [(0, "start\nchurn %d\n%s" % (s, done), None)]


def generate(rng, heap_bytes, gc):
    mode = rng.choices([0, 1, 2, 3], [5, 3, 4, 2 if gc != "zero" else 0])[0]
    where = rng.choice([0, 1])
    nby = rng.choice([0, 0, 1, 2, 4])
    if mode == 0:
        a = rng.randrange(8)
        esz = ESZ[a]
        maxlen = (2**63 - 1 - 24) // esz   # largest length whose size still fits into an Int64
        near = [maxlen, maxlen + 1, maxlen - 1, maxlen // 2, maxlen // 2 + 1, maxlen // 3, maxlen // 4, maxlen // 5, maxlen // 7, (2**64) // esz, (2**64) // esz + 3,
                (2**63) // esz, (2**63) // esz - 1]
        b = rng.choice([-1, -2, -2**63, -2**31, 0, 1, 2**31 - 1, 2**31, 2**32, 2**59, 2**60 - 1, 2**60, 2**61, 2**61 + 1, 2**61 + rng.randrange(1000), 2**62, 2**63 - 1,
                        heap_bytes // 32 // esz, heap_bytes * 2 // esz, heap_bytes // esz, rng.randrange(0, 5000)] + near + near)
        b = max(-2**63, min(2**63 - 1, b))  # must stay a valid Int64 literal for the driver
    elif mode == 1:
        a = rng.choice([0, 2, 3, 9])
        # retained object lengths: around the TLAB and large-object limits, and large objects
        # whose size is just above / below a multiple of the 4 KiB OS page and the 64 KiB heap
        # page (what is committed for them differs most from their size)
        b = rng.choice([0, 1, 100, 1000, 1022, 4093, 8192, 40000, 300000,
                        4094, 4096, 4100, 4300, 4607, 4700, 5122, 6145, 8190, 8193, 16386, 65536 + rng.randrange(-3, 4)])
    elif mode == 2:
        a = rng.randrange(7)
        b = rng.choice([0, 1, 3])
    else:
        a = rng.choice([1, 5, 20])
        b = rng.choice([0, 1, 64, 1000, 5000])
        while a * 1000 * (8 * b + 16) > 60 * heap_bytes:
            a = max(1, a // 2)
            if a == 1:
                b = min(b, 1000)
                break
    return [mode, where, nby, a, b]
