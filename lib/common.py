"""Shared orchestration helpers: build, parallel workers, evidence, known findings, exit codes.

Exit codes: 0 property held on everything explored; 1 violation (VIOLATION line printed);
2 harness/build error or determinism gate failed (never a VIOLATION line).
"""
import json, os, subprocess, sys, time, hashlib, shutil

VERIF = os.path.dirname(os.path.dirname(os.path.abspath(__file__)))
REPO = os.environ.get("VERIF_REPO", "/repo")
SIM = os.path.join(VERIF, "sim")
WORK = os.path.join(VERIF, "work")
REPLAYS = os.path.join(VERIF, "replays")
EVIDENCE = os.path.join(VERIF, "evidence")
JOBS = int(os.environ.get("VERIF_JOBS", "16"))

ENV = dict(os.environ)
ENV["CARGO_NET_OFFLINE"] = "true"


def log(*a):
    print(*a, file=sys.stderr, flush=True)


def seed():
    try:
        return int(os.environ.get("VERIF_SEED", "1"))
    except ValueError:
        return 1


def harness_error(msg):
    log("HARNESS-ERROR:", msg)
    sys.exit(2)


def run(cmd, cwd=None, timeout=None, env=None, check=False, capture=True):
    p = subprocess.run(cmd, cwd=cwd, timeout=timeout, env=env or ENV,
                       stdout=subprocess.PIPE if capture else None,
                       stderr=subprocess.PIPE if capture else None)
    if check and p.returncode != 0:
        harness_error("command failed: %s\n%s" % (" ".join(cmd), (p.stderr or b"").decode(errors="replace")[-4000:]))
    return p


def build_sim(packages=("harness",), profile="release"):
    """Build the shadow workspace (guard on) from /repo's current working tree."""
    os.makedirs(WORK, exist_ok=True)
    cmd = ["cargo", "build", "--offline"]
    if profile == "release":
        cmd.append("--release")
    for p in packages:
        cmd += ["-p", p]
    t0 = time.time()
    p = run(cmd, cwd=SIM)
    if p.returncode != 0:
        harness_error("shadow workspace build failed:\n" + p.stderr.decode(errors="replace")[-6000:])
    log("built sim %s in %.1fs" % (",".join(packages), time.time() - t0))
    return os.path.join(SIM, "target", profile)


def build_repo(packages=("dora", "dora-runtime", "dora-startup")):
    """Build the real toolchain (guard off) from /repo's working tree."""
    cmd = ["cargo", "build", "--offline"]
    for p in packages:
        cmd += ["-p", p]
    t0 = time.time()
    p = run(cmd, cwd=REPO)
    if p.returncode != 0:
        harness_error("repo build failed:\n" + p.stderr.decode(errors="replace")[-6000:])
    log("built repo %s in %.1fs" % (",".join(packages), time.time() - t0))
    return os.path.join(REPO, "target", "debug")


def known_findings():
    path = os.path.join(VERIF, "known_findings.json")
    if not os.path.exists(path):
        return []
    return json.load(open(path))["findings"]


def match_known(prop, key):
    """Return the 'known' finding entry whose key matches (exact), or None. 'fixed' entries
    suppress nothing."""
    for f in known_findings():
        if f["property"] == prop and f.get("status") == "known" and f["key"] == key:
            return f
    return None


def write_evidence(prop, tier, level, coverage, wall_s, violations, assumptions, extra=None):
    os.makedirs(EVIDENCE, exist_ok=True)
    ev = {
        "property_id": prop,
        "tier": tier,
        "seed": seed(),
        "level": level,
        "coverage": coverage,
        "assumptions": assumptions,
        "wall_s": round(wall_s, 2),
        "violations": violations,
    }
    if extra:
        ev.update(extra)
    tmp = os.path.join(EVIDENCE, prop + ".json.tmp")
    with open(tmp, "w") as f:
        json.dump(ev, f, indent=1, sort_keys=True)
    os.replace(tmp, os.path.join(EVIDENCE, prop + ".json"))


def save_replay(prop, src_path_or_obj):
    os.makedirs(REPLAYS, exist_ok=True)
    if isinstance(src_path_or_obj, str):
        data = open(src_path_or_obj, "rb").read()
    else:
        data = json.dumps(src_path_or_obj, indent=1, sort_keys=True).encode()
    h = hashlib.sha256(data).hexdigest()[:12]
    dst = os.path.join(REPLAYS, "%s-%s.json" % (prop, h))
    with open(dst, "wb") as f:
        f.write(data)
    return dst


def report_violation(prop, replay_path):
    print("VIOLATION property=%s replay=%s" % (prop, replay_path), flush=True)


def report_known(prop, what):
    print("KNOWN-FINDING: property=%s %s" % (prop, what), flush=True)


def tier_budget(tier, quick_s, thorough_s):
    b = os.environ.get("VERIF_BUDGET_S")
    if b:
        return float(b)
    return quick_s if tier == "quick" else thorough_s


def parallel(cmds, timeout=None):
    """Run commands concurrently (at most JOBS at a time); returns list of (rc, stdout, stderr)."""
    procs = []
    results = [None] * len(cmds)
    pending = list(enumerate(cmds))
    running = []
    while pending or running:
        while pending and len(running) < JOBS:
            i, c = pending.pop(0)
            p = subprocess.Popen(c["cmd"], cwd=c.get("cwd"), env=c.get("env", ENV), stdout=subprocess.PIPE, stderr=subprocess.PIPE)
            running.append((i, p, time.time()))
        still = []
        for i, p, t0 in running:
            try:
                out, err = p.communicate(timeout=0.05)
                results[i] = (p.returncode, out, err)
            except subprocess.TimeoutExpired:
                if timeout and time.time() - t0 > timeout:
                    p.kill()
                    out, err = p.communicate()
                    results[i] = (-9, out, err)
                else:
                    still.append((i, p, t0))
        running = still
    return results


def run_group(cmd, env=None, cwd=None, timeout=None, stdout=subprocess.PIPE, stderr=subprocess.PIPE, preexec_fn=None):
    """subprocess.run replacement that kills the whole process group on timeout (compile
    drivers spawn the code generator and gcc). Raises subprocess.TimeoutExpired like run."""
    import signal

    def pre():
        os.setsid()
        if preexec_fn:
            preexec_fn()

    proc = subprocess.Popen(cmd, env=env, cwd=cwd, stdout=stdout, stderr=stderr, preexec_fn=pre)
    try:
        out, err = proc.communicate(timeout=timeout)
    except subprocess.TimeoutExpired:
        try:
            os.killpg(proc.pid, signal.SIGKILL)
        except ProcessLookupError:
            pass
        proc.communicate()
        raise
    return subprocess.CompletedProcess(cmd, proc.returncode, out, err)
