"""Tier B property checks: C03 (heapgraph), C09 (sync), C13 (exhaust), C12 addition."""
import json, os, re, time
from common import *
import tier_b as tb
import model_heapgraph as mh
import model_sync as ms
import model_exhaust as mx
import model_mtheap as mm

REAL_B = ["the whole linked executable: compiled Dora code (both code generators), pkgs/std (thread.dora lock-word protocol, collections), dora-runtime (threads, safepoints, wait lists, all four collectors, TLABs, write barrier slow path, parallel marking/evacuation with work stealing and termination detection, concurrent sweeper, heap controller), dora-startup",
          "GC worker pool and concurrent sweeper pool run as simulator tasks (facade crates over shuttle)"]
STUB_B = ["parking_lot / scoped_threadpool / threadpool / rand replaced by simulation facades at the dependency boundary",
          "the script's reference model is Python (lib/model_*.py)",
          "crossbeam-deque runs real but is not a scheduling point"]
ASSUME_B = ["preemption only at runtime entry points and shim operations (mutex, condvar, thread-state byte, header-word stores, sweeper cursors), never between two machine instructions of compiled code",
            "sequentially consistent interleavings (one OS thread)",
            "x86-64 only; arm64 output is never executed"]


def heap_key(run, v, res=None):
    """Key of a violation for the known-findings file. One listed finding needs a precise
    key: the generational collector promotes whole 64 KiB pages at every full collection and
    never compacts the old generation, so full collections with a little surviving data spread
    over the young pages exhaust the heap page by page (sparse-page promotion)."""
    if v[0] == "trap:OOM" and run["exe"][1] == "swiper" and res is not None:
        # the symptom itself, measured by a hook at the trap: the committed old generation
        # (regular pages) fills at least half of the maximum heap although the script keeps
        # only a few hundred KiB reachable
        st = res.get("stats") or {}
        heap_mb = 128
        m = re.search(r"--max-heap-size=(\d+)M", run["dora_flags"])
        if m:
            heap_mb = int(m.group(1))
        oom_heap = st.get("oom_heap") or [0, 0, 0]
        if oom_heap[1] >= 0.5 * (heap_mb << 20):
            return "swiper:sparse-page-promotion:trap:OOM"
    if v[0] == "trap:OOM" and run["exe"][1] == "sweep" and run["exe"][0].split("@")[0] == "heapgraph":
        # non-moving collector: survivors spread by KEEPCHURN, then a request that needs a
        # contiguous block larger than a TLAB (>= 8 KiB)
        a = run["argv"]
        ops = [tuple(a[1 + 4 * k: 5 + 4 * k]) for k in range((len(a) - 1) // 4)]
        seen_keep = False
        for (op, x, y, z) in ops:
            if op == mh.OPS["KEEPCHURN"] and y > 0 and x >= 20000:
                seen_keep = True
            elif seen_keep and ((op in (mh.OPS["NEW"], mh.OPS["ARR"]) and y >= 1000) or (op == mh.OPS["PAIRS"] and y >= 500) or (op == mh.OPS["CHURN"] and y >= 1000)
                                or (op == mh.OPS["STR"] and y >= 90)):
                return "sweep:fragmentation-large-request:trap:OOM"
    return "%s:%s" % (run["exe"][0].split("@")[0], v[0])


# layout variants of the heapgraph driver available in the current check (0 = the original)
HG_VARIANTS = [0]


def hg_run(seed, prop, i, fault_free, collectors=("zero", "copy", "sweep", "swiper"), codegens=("cannon", "boots"), profile=None, max_ops=200):
    wl = tb.stream(seed, prop, i, "workload")
    cfg = tb.stream(seed, prop, i, "config")
    script, prof = mh.generate(wl, max_ops=max_ops, profile=profile)
    out, w = mh.run(script)
    weights = {"zero": 1, "copy": 5, "sweep": 5, "swiper": 10}
    cands = [c for c in collectors if c != "zero" or w.alloc_bytes < 40 * 1024 * 1024]
    gc = cfg.choices(cands, [weights[c] for c in cands])[0]
    cg = cfg.choice(list(codegens))
    flags, workers, heap = tb.draw_gc_flags(cfg, gc)
    if gc == "zero":
        flags = [f for f in flags if not f.startswith("--max-heap-size") and not f.startswith("--min-heap-size")]
    stress = None
    if w.next_id < 1500 and cfg.random() < 0.06 and gc != "zero":
        stress = cfg.choice(["--gc-stress", "--gc-stress-minor"])
        flags.append(stress)
    faults = tb.draw_faults(cfg, fault_free)
    allocs_est = w.next_id + len(script)
    tb.cap_fault_rates(faults, allocs_est, gc, heap, "--gc-verify" in flags)
    if stress and allocs_est * tb.gc_cost_ms(gc, heap, "--gc-verify" in flags) > 1500:
        flags.remove(stress)
        stress = None
    sim = {"seed": cfg.getrandbits(48), "policy": tb.draw_policy(cfg, 2 + 2 * workers, max(200, 40 * w.next_id // 10)),
           "hot": 0 if fault_free else cfg.choice([0, 300, 3000, 20000])}
    if gc == "swiper":
        # cooperative fault point: header-word stores while the concurrent sweeper runs
        # (schedules are part of both batches; the fault-free batch injects no collections)
        sim["hotsweep"] = cfg.choice([sim["hot"], 20000, 65536, 65536])
        if cfg.random() < 0.4:
            sim["policy"] = "sticky:%d" % cfg.choice([230, 245, 250, 253])
    sim.update(faults)
    snap = tb.stream(seed, prop, i, "snapshot")
    if gc == "swiper" and snap.random() < 0.3:
        # heap snapshots: a stop-the-world operation that walks the whole heap, possibly
        # while the concurrent sweeper is still at work (no effect on the expected output)
        script = mh.add_snapshots(script, snap)
        prof = prof + "+snap"
    variant = tb.stream(seed, prop, i, "variant").choice(HG_VARIANTS)
    return {"index": i, "exe": ["heapgraph@%d" % variant if variant else "heapgraph", gc, cg, "sim"], "argv": script, "dora_flags": " ".join(flags), "sim": sim,
            "expect": {"rc": 0, "stdout": out, "stderr_empty": True}, "timeout": 300, "fault_free": fault_free,
            "tags": {"gc": gc, "codegen": cg, "profile": prof, "layout_variant": variant, "workers": workers, "heap_mb": heap if gc != "zero" else 128,
                     "tlab": "off" if "--disable-tlab" in flags else "on", "gc_verify": "--gc-verify" in flags, "stress": stress or "none",
                     "policy": sim["policy"].split(":")[0], "fault_free": fault_free}}


def mt_run(seed, prop, i, fault_free, collectors=("copy", "sweep", "swiper"), codegens=("cannon", "boots")):
    """Multi-threaded heap workload: collections requested by any thread while the others
    allocate, sit in natives, wait at the barrier or hold the process-wide mutex."""
    wl = tb.stream(seed, prop, i, "workload")
    cfg = tb.stream(seed, prop, i, "config")
    script = mm.generate(wl)
    out = mm.expected(script)
    gc = cfg.choices(list(collectors), [3 if c != "swiper" else 6 for c in collectors])[0]
    cg = cfg.choice(list(codegens))
    flags, workers, heap = tb.draw_gc_flags(cfg, gc)
    flags = [f for f in flags if not f.startswith("--max-heap-size") and not f.startswith("--min-heap-size")] + ["--max-heap-size=%dM" % cfg.choice([16, 32])]
    storm = mm.is_storm(script)
    if storm:
        # many collections requested by many threads at once: small young generation, no
        # verifier (it would dominate the run time)
        flags = [f for f in flags if not f.startswith("--gc-young-size") and f != "--gc-verify"]
        if gc == "swiper":
            flags.append("--gc-young-size=%dM" % cfg.choice([1, 1, 2]))
    faults = tb.draw_faults(cfg, fault_free)
    tb.cap_fault_rates(faults, 300 + len(script), gc, 16, "--gc-verify" in flags)
    if storm:
        faults = {"pminor": 0, "pfull": 0, "pfail": faults["pfail"] // 8, "burst": 0}
    t = script[0]
    sim = {"seed": cfg.getrandbits(48), "policy": tb.draw_policy(cfg, t + 2 * workers, 500 + 20 * len(script)), "hot": 0 if fault_free else cfg.choice([0, 300, 3000])}
    if gc == "swiper":
        sim["hotsweep"] = cfg.choice([sim["hot"], 20000, 65536])
    sim.update(faults)
    snap = tb.stream(seed, prop, i, "snapshot")
    if gc == "swiper" and snap.random() < 0.35:
        script = mm.add_snapshots(script, snap)
    if gc == "swiper" and mm.OPS["SHSTORE"] in [op for th in mm.parse(script)[3] for ph in th for (op, _, _, _) in ph]:
        # several threads store into one shared old object: make the header-word operations of
        # the write barrier's slow path scheduling points often enough for them to interleave
        sim["hot"] = snap.choice([3000, 20000, 65536])
        sim["hotsweep"] = max(sim.get("hotsweep", 0), sim["hot"])
    return {"index": i, "exe": ["mtheap", gc, cg, "sim"], "argv": script, "dora_flags": " ".join(flags), "sim": sim,
            "expect": {"rc": 0, "stdout": out, "stderr_empty": True}, "timeout": 300, "fault_free": fault_free,
            "tags": {"gc": gc, "codegen": cg, "profile": "garbage-storm" if storm else "multithreaded", "threads": t, "workers": workers, "policy": sim["policy"].split(":")[0], "fault_free": fault_free,
                     "tlab": "off" if "--disable-tlab" in flags else "on", "gc_verify": "--gc-verify" in flags}}


def mt_shrink(argv):
    t, phases, nslots, code = mm.parse(argv)
    # drop the last phase pair, then single operations (never TAKE/PUBLISH structure-breaking: any subset stays valid)
    if phases > 1:
        yield mm.flatten(t, phases - 1, nslots, [c[:phases - 1] for c in code])
    for tid in range(t):
        for p in range(phases):
            for k in range(len(code[tid][p]) - 1, -1, -1):
                c2 = [[list(ops) for ops in th] for th in code]
                del c2[tid][p][k]
                yield mm.flatten(t, phases, nslots, c2)


def c03_make_run(seed, prop, i, fault_free):
    if i % 12 == 7:
        # the waiting-thread table as a root set: many threads queued on distinct objects
        # while collections move those objects
        r = sync_run(seed, prop, i, fault_free, events=True)
        if not fault_free:
            r["sim"]["pminor"] = max(r["sim"].get("pminor", 0), 2000)
            r["sim"]["pfull"] = max(r["sim"].get("pfull", 0), 1000)
        return r
    if i % 3 == 2:
        return mt_run(seed, prop, i, fault_free)
    return hg_run(seed, prop, i, fault_free)


class _ShrinkByDriver:
    def __init__(self, by):
        self.by_driver = by

    def __call__(self, argv):
        return self.by_driver["heapgraph"](argv)


def hg_shrink(argv):
    """Drop one operation (quadruple) at a time, from the end; then shrink big numeric arguments."""
    n = (len(argv) - 1) // 4
    # halves first
    if n > 8:
        half = n // 2
        yield argv[:1 + 4 * half]
        yield argv[:1] + argv[1 + 4 * half:]
    for k in range(n - 1, -1, -1):
        yield argv[:1 + 4 * k] + argv[1 + 4 * (k + 1):]
    for k in range(n):
        op, x, y, z = argv[1 + 4 * k: 5 + 4 * k]
        if op == mh.OPS["CHURN"] and x > 1:
            yield argv[:1 + 4 * k] + [op, x // 2, y, z] + argv[5 + 4 * k:]
        if op in (mh.OPS["NEW"], mh.OPS["ARR"], mh.OPS["STR"], mh.OPS["PAIRS"]) and y > 1:
            yield argv[:1 + 4 * k] + [op, x, y // 2, z] + argv[5 + 4 * k:]
        if op == mh.OPS["DEEP"] and x > 0:
            yield argv[:1 + 4 * k] + [op, x // 2, y, 0] + argv[5 + 4 * k:]


def hg_expect(argv, run):
    if run["exe"][0] == "sync":
        out = ms.expected(argv)
    elif run["exe"][0] == "mtheap":
        out = mm.expected(argv)
    else:
        out, _ = mh.run(argv)
    e = dict(run["expect"])
    e["stdout"] = out
    return e


def run_tier_b_property(prop, tier, quick_s, thorough_s, drivers, collectors, codegens, make_run, shrink, expect_fn, level_text,
                        fault_free_share=0.15, extra_cov=None, max_runs=10**9, key_fn=None, write=True):
    t0 = time.time()
    exes = tb.build_executables(drivers, collectors, codegens)
    budget = tier_budget(tier, quick_s, thorough_s)
    s = seed()
    gate_runs = [make_run(s + 7919, prop, i, i % 2 == 0) for i in range(6)]
    det = tb.determinism_gate(prop, exes, gate_runs)
    # fault-free configuration first and separately
    ff = tb.Batch(prop, exes)

    def lazy(n0, fault_free):
        i = n0
        while i < n0 + max_runs:
            yield i, fault_free
            i += 1

    class LazyRuns:
        def __init__(self, start, fault_free):
            self.start, self.fault_free = start, fault_free

        def __iter__(self):
            i = self.start
            while i - self.start < max_runs:
                yield ("lazy", i, self.fault_free)
                i += 1

    def run_lazy(batch, start, fault_free, budget_s):
        """JOBS worker threads pull run indices from a shared counter until the budget is
        used up; results are accounted in index order so that evidence does not depend on
        completion order."""
        import threading
        tstart = time.time()
        lock = threading.Lock()
        state = {"next": start, "stop": False}
        done = {}

        def worker():
            while True:
                with lock:
                    if state["stop"] or time.time() - tstart > budget_s or state["next"] - start >= max_runs:
                        return
                    i = state["next"]
                    state["next"] += 1
                run = make_run(s, prop, i, fault_free)
                res = tb.execute(run, exes)
                with lock:
                    done[i] = (run, res)
                    v = tb.classify(run, res)
                    if v is not None and v[0] not in ("timeout", "step-budget"):
                        # (a wall-clock timeout is only believed after it has been repeated
                        # with a larger limit, see handle_violations - it does not stop the search)
                        key = key_fn(run, v, res) if key_fn else "%s:%s" % (run["exe"][0], v[0])
                        if match_known(prop, key) is None:
                            state["stop"] = True

        threads = [threading.Thread(target=worker) for _ in range(JOBS)]
        for t in threads:
            t.start()
        for t in threads:
            t.join()
        for i in sorted(done):
            batch.account(*done[i])
        return state["stop"]

    stopped = run_lazy(ff, 0, True, budget * fault_free_share)
    fb = tb.Batch(prop, exes)
    if not stopped:
        run_lazy(fb, 1_000_000, False, budget * (1 - fault_free_share))
    exit_code = 0
    reported = []
    for b in (ff, fb):
        if b.violations:
            ec, rep = tb.handle_violations(prop, b, exes, shrink, expect_fn, key_fn)
            exit_code = max(exit_code, ec)
            reported += rep
    wall = time.time() - t0
    runs = ff.counters["runs"] + fb.counters["runs"]
    search_wall = max(wall - 1, 1)
    merged_by = dict(ff.by)
    for k, v in fb.by.items():
        merged_by[k] = merged_by.get(k, 0) + v
    tot = lambda k: ff.counters[k] + fb.counters[k]
    coverage = {
        "evaluations": runs,
        "distinct_nontrivial": len(ff.distinct | fb.distinct),
        "rule": "one evaluation = one simulated execution of the whole linked executable on a script generated from (VERIF_SEED, index) with configuration (collector, code generator, heap/young size, workers, TLAB, gc-verify), scheduling policy and fault rates drawn from the same seed; "
                "distinct = distinct (script, executable, flags, decision-trace hash); non-trivial = the run passed its oracle with at least one preemption taken and, in fault configurations, at least one injected fault fired",
        "samples": (fb.samples + ff.samples)[:3],
        "simulated_runs": runs,
        "fault_free_runs": ff.counters["runs"],
        "fault_injecting_runs": fb.counters["runs"],
        "runs_per_hour": int(runs / search_wall * 3600),
        "simulated_time_scheduler_steps": tot("decisions"),
        "preemptions_taken": tot("preemptions"),
        "fault_kinds_fired": {"gc_minor@alloc": tot("gc_minor_injected"), "gc_full@alloc": tot("gc_full_injected"), "alloc_fail_once": tot("alloc_fail_injected"),
                              "header_word_preemptions": tot("hot_taken")},
        "stop_the_world_operations_monitored": tot("stw_operations"),
        "concurrent_sweeps_monitored": tot("sweeps"),
        "managed_allocations": tot("allocs"),
        "configuration_counts": merged_by,
        "determinism_gate": {"runs_executed_twice": det, "result": "identical (exit status, stdout, trace hash, decisions, allocation and fault counters)"},
        "components_real": REAL_B,
        "components_stub": STUB_B,
        "level_text": level_text,
        "violations_reported": reported,
        "workers": JOBS,
    }
    if extra_cov:
        coverage.update(extra_cov)
    if write:
        write_evidence(prop, tier, "exploration", coverage, wall, len(reported), ASSUME_B)
    log("%s: %d runs (%d fault-free), %d distinct non-trivial, %d violation class(es), %.1fs" % (prop, runs, ff.counters["runs"], coverage["distinct_nontrivial"], len(reported), wall))
    if not write:
        return exit_code, coverage, reported
    return exit_code


def boots_workload_batch(tier, budget_s):
    """The optimizing compiler itself (50k lines of Dora, allocation heavy) as a workload: its
    compiler image is linked against the simulated runtime and compiles corpus packages under
    seeded schedules and injected collections; the assembly it emits must be byte-identical
    to the fault-free reference, whatever the collection schedule."""
    import hashlib, subprocess, threading
    dbg = os.path.join(REPO, "target", "debug")
    dora = os.path.join(dbg, "dora")
    simlib = os.path.join(SIM, "target", "release", "libdora_startup.a")
    os.makedirs(tb.TB, exist_ok=True)
    images = {}

    def build_image(gc):
        base = os.path.join(tb.TB, "bootsimg-%s" % gc)
        p = tb.sh([dora, "compile", "--internal-compile-boots", "--cannon", "-S", "--gc=" + gc, os.path.join(REPO, "pkgs/boots/boots.dora"), "-o", base])
        if p.returncode != 0:
            return gc, "compile failed: " + p.stderr.decode(errors="replace")[-1500:]
        p = tb.sh(["gcc", "-c", base + ".s", "-o", base + ".o"])
        if p.returncode != 0:
            return gc, "assemble failed"
        p = tb.sh(["gcc", base + ".o", simlib, "-Wl,-x", "-lpthread", "-ldl", "-lm", "-o", base + ".sim"])
        if p.returncode != 0:
            return gc, "link failed: " + p.stderr.decode(errors="replace")[-1500:]
        for ext in (".s", ".o"):
            os.remove(base + ext)
        return gc, base + ".sim"

    t0 = time.time()
    from concurrent.futures import ThreadPoolExecutor
    with ThreadPoolExecutor(2) as ex:
        for gc, res in ex.map(build_image, ["swiper", "copy"]):
            if not res.endswith(".sim"):
                harness_error("boots image (%s): %s" % (gc, res))
            images[gc] = res
    log("built 2 simulated boots compiler images in %.1fs" % (time.time() - t0))
    packages = {}
    refs = {}
    for name in ("kitchen", "sync"):
        pkg = os.path.join(tb.TB, "bw-%s.dora-package" % name)
        p = tb.sh([dora, "compile", "-c", os.path.join(VERIF, "workloads", name + ".dora"), "-o", pkg])
        if p.returncode != 0:
            harness_error("package for %s failed" % name)
        packages[name] = pkg

    def compile_once(image_gc, name, target_gc, sim, flags, tag, timeout=600):
        out = os.path.join(tb.TB, "bw-out-%s.s" % tag)
        stats = os.path.join(tb.TB, "bw-stats-%s.json" % tag)
        env = dict(os.environ)
        env["DORA_FLAGS"] = flags
        sim = dict(sim)
        sim["stats"] = stats
        env["VERIF_SIM"] = tb.sim_string(sim)
        for f in (out, stats):
            if os.path.exists(f):
                os.remove(f)
        try:
            p = subprocess.run([images[image_gc], packages[name], "-o", out, "--gc=" + target_gc], env=env, stdout=subprocess.PIPE, stderr=subprocess.PIPE, timeout=timeout, cwd=tb.TB)
            rc, err, to = p.returncode, p.stderr.decode(errors="replace")[:3000], False
        except subprocess.TimeoutExpired:
            rc, err, to = -9, "", True
        digest = hashlib.sha256(open(out, "rb").read()).hexdigest() if os.path.exists(out) else None
        st = {}
        try:
            st = json.load(open(stats))
        except Exception:
            pass
        for f in (out, stats):
            if os.path.exists(f):
                os.remove(f)
        return {"rc": rc, "stderr": err, "timeout": to, "sha": digest, "stats": st, "stdout": ""}

    # fault-free references (one per image collector x package)
    for image_gc in images:
        for name in packages:
            r = compile_once(image_gc, name, "swiper", {"seed": 1, "policy": "runtoblock"}, "--gc-worker=1", "ref-%s-%s" % (image_gc, name))
            if r["rc"] != 0 or r["sha"] is None:
                harness_error("fault-free boots reference failed (%s, %s): rc=%s %s" % (image_gc, name, r["rc"], r["stderr"][-500:]))
            refs[(image_gc, name)] = r["sha"]
    if len(set(refs[(g, n)] for g in images for n in ["kitchen"])) != 1:
        harness_error("boots reference outputs differ between collector images")

    s = seed()
    lock = threading.Lock()
    state = {"next": 0}
    results = []
    tstart = time.time()

    def worker():
        while True:
            with lock:
                if time.time() - tstart > budget_s:
                    return
                i = state["next"]
                state["next"] += 1
            cfg = tb.stream(s, "C03", i, "bootswork")
            image_gc = cfg.choice(["swiper", "swiper", "copy"])
            name = cfg.choice(sorted(packages))
            heap = cfg.choice([16, 32, 64])
            workers = cfg.choice([1, 2, 4])
            flags = ["--gc-worker=%d" % workers, "--max-heap-size=%dM" % heap]
            if cfg.random() < 0.3:
                flags.append("--gc-verify")
            if image_gc == "swiper" and cfg.random() < 0.4:
                flags.append("--gc-young-size=%dM" % cfg.choice([2, 4]))
            faults = tb.draw_faults(cfg, False)
            tb.cap_fault_rates(faults, 4000, image_gc, heap, "--gc-verify" in flags, run_budget_ms=6000)
            # the compiler keeps tens of MiB alive: a collection costs ~0.1-0.2 s here, whatever
            # the heap size - keep the expected number of injected collections below ~60
            expected = 5500 * (faults["pminor"] + faults["pfull"] + faults["pfail"]) / 65536.0 * (1 + faults.get("burst", 0) / 8.0)
            if expected > 60:
                for k in ("pminor", "pfull", "pfail"):
                    if faults[k]:
                        faults[k] = max(1, int(faults[k] * 60 / expected))
            sim = {"seed": cfg.getrandbits(48), "policy": tb.draw_policy(cfg, 2 + 2 * workers, 2000), "hot": cfg.choice([0, 300, 3000])}
            if image_gc == "swiper":
                sim["hotsweep"] = cfg.choice([sim["hot"], 20000, 65536])
            sim.update(faults)
            r = compile_once(image_gc, name, "swiper", sim, " ".join(flags), "%d-%d" % (os.getpid(), i))
            run = {"index": i, "exe": ["boots-image", image_gc, "cannon", "sim"], "argv": [name], "dora_flags": " ".join(flags), "sim": sim,
                   "expect": {"rc": 0, "stderr_empty": True}, "workload": "boots compiler compiling %s" % name}
            run["timeout"] = 600
            v = tb.classify(run, r)
            if v is not None and v[0] == "timeout":
                # wall-clock limits are not under the simulator's control: repeat once with a
                # three times larger limit before believing a hang
                r = compile_once(image_gc, name, "swiper", sim, " ".join(flags), "%d-%d-again" % (os.getpid(), i), timeout=1800)
                run["timeout"] = 1800
                v = tb.classify(run, r)
            if v is None and r["sha"] != refs[(image_gc, name)]:
                v = ("output-mismatch", "assembly emitted by the simulated compiler differs from the fault-free reference")
            with lock:
                results.append((run, r, v))

    threads = [threading.Thread(target=worker) for _ in range(JOBS)]
    for t in threads:
        t.start()
    for t in threads:
        t.join()
    return results, images, packages, refs


def c03(tier):
    t0 = time.time()
    # layout variants of the object-graph driver (padding fields: reference fields at other
    # offsets; extra live reference locals: bigger frames and stack maps)
    global HG_VARIANTS
    nvar = 2 if tier == "quick" else 6
    first = 1 + (seed() * 2) % 12
    HG_VARIANTS = [0, 0] + [first + k for k in range(nvar)]
    main = run_tier_b_property(
        "C03", tier, quick_s=75, thorough_s=1200, drivers=["heapgraph", "mtheap", "sync"] + ["heapgraph@%d" % v for v in HG_VARIANTS if v], collectors=["zero", "copy", "sweep", "swiper"], codegens=["cannon", "boots"],
        make_run=c03_make_run, shrink=_ShrinkByDriver({"heapgraph": hg_shrink, "mtheap": mt_shrink, "sync": sync_shrink}), expect_fn=hg_expect, write=False, key_fn=heap_key,
        level_text="seeded search over generated object-graph scripts x collector x code generator x heap/young size x workers x TLAB x gc-verify x schedule x injected collections/allocation failures; oracle = Python reference model of the script (exact stdout), clean exit, no runtime assertion / gc-verify failure / signal, M-stw monitor inside every collection, M-sweep after every concurrent sweep")
    exit_code, cov, reported = main
    results, images, packages, refs = boots_workload_batch(tier, tier_budget(tier, 40, 600) if not os.environ.get("VERIF_BUDGET_S") else float(os.environ["VERIF_BUDGET_S"]) / 2)
    bw = {"runs": len(results), "gc_minor_injected": 0, "gc_full_injected": 0, "alloc_fail_injected": 0, "stw_operations": 0, "decisions": 0, "passed": 0}
    seen = set()
    for run, r, v in results:
        for k in ("gc_minor_injected", "gc_full_injected", "alloc_fail_injected", "stw_operations", "decisions"):
            bw[k] += r["stats"].get(k, 0)
        if v is None:
            bw["passed"] += 1
            continue
        key = "boots-workload:%s" % v[0]
        if key in seen:
            continue
        seen.add(key)
        rp = save_replay("C03", {"property": "C03", "tier": "B", "kind": "boots-workload", "run": run, "violation_class": v[0], "violation": v[1],
                                 "observed": {"rc": r["rc"], "stderr_head": r["stderr"][:1500], "stats": r["stats"]},
                                 "how_to_replay": "bin/check C03 --replay <this file> rebuilds the simulated compiler image and re-runs this configuration"})
        if match_known("C03", key):
            report_known("C03", match_known("C03", key)["what"])
        else:
            report_violation("C03", rp)
            log("  class=%s detail=%s" % v)
            exit_code = 1
        reported.append({"class": v[0], "detail": v[1], "replay": rp, "key": key})
    cov["evaluations"] += bw["runs"]
    cov["distinct_nontrivial"] += bw["passed"]
    cov["boots_compiler_as_workload"] = bw
    # the repository's runnable corpus as workloads (different frame layouts / stack maps /
    # store shapes per program)
    import corpus
    cb = tier_budget(tier, 45, 900) if not os.environ.get("VERIF_BUDGET_S") else float(os.environ["VERIF_BUDGET_S"]) / 2
    ccov, crep, cec = corpus.corpus_batch(tier, cb, key_fn=heap_key)
    exit_code = max(exit_code, cec)
    reported += crep
    cov["evaluations"] += ccov["sim_runs"]
    cov["distinct_nontrivial"] += ccov["distinct_nontrivial"]
    cov["fault_kinds_fired"]["gc_minor@alloc"] += ccov["gc_minor_injected"] + bw["gc_minor_injected"]
    cov["fault_kinds_fired"]["gc_full@alloc"] += ccov["gc_full_injected"] + bw["gc_full_injected"]
    cov["fault_kinds_fired"]["alloc_fail_once"] += ccov["alloc_fail_injected"] + bw["alloc_fail_injected"]
    cov["simulated_time_scheduler_steps"] += ccov["decisions"] + bw["decisions"]
    cov["repository_corpus_as_workload"] = ccov
    log("C03 corpus: %d programs checked (%d tried), %d simulated runs, %d passed" % (ccov["programs_checked"], ccov["programs_tried"], ccov["sim_runs"], ccov["passed"]))
    cov["violations_reported"] = reported
    write_evidence("C03", tier, "exploration", cov, time.time() - t0, len(reported), ASSUME_B)
    log("C03 boots-as-workload: %d compilations under fault schedules, %d identical to the reference" % (bw["runs"], bw["passed"]))
    return exit_code


def c03_replay(path):
    obj = json.load(open(path))
    if obj.get("kind") == "corpus":
        import corpus
        return corpus.replay(path)
    if obj.get("kind") != "boots-workload":
        return tb.replay_file(path)
    build_repo(("dora", "dora-runtime", "dora-startup"))
    build_sim(("dora-startup",))
    os.environ["VERIF_BUDGET_S"] = "0"
    results, images, packages, refs = boots_workload_batch("quick", 0)
    import subprocess, hashlib
    run = obj["run"]
    env = dict(os.environ)
    env["DORA_FLAGS"] = run["dora_flags"]
    env["VERIF_SIM"] = tb.sim_string(run["sim"])
    out = os.path.join(tb.TB, "bw-replay.s")
    p = subprocess.run([images[run["exe"][1]], packages[run["argv"][0]], "-o", out, "--gc=swiper"], env=env, stdout=subprocess.PIPE, stderr=subprocess.PIPE, cwd=tb.TB)
    r = {"rc": p.returncode, "stderr": p.stderr.decode(errors="replace")[:3000], "timeout": False, "stats": {}, "stdout": ""}
    v = tb.classify(run, r)
    if v is None and os.path.exists(out) and hashlib.sha256(open(out, "rb").read()).hexdigest() != refs[(run["exe"][1], run["argv"][0])]:
        v = ("output-mismatch", "assembly differs from the fault-free reference")
    if v is None:
        print("REPLAY-RESULT ok")
        return 0
    print("REPLAY-RESULT violation class=%s detail=%s" % v)
    return 1 if v[0] == obj["violation_class"] else 3


def sync_run(seed, prop, i, fault_free, collectors=("copy", "sweep", "swiper"), codegens=("cannon", "boots"), events=False):
    wl = tb.stream(seed, prop, i, "workload")
    cfg = tb.stream(seed, prop, i, "config")
    script, prof = ms.generate_events(wl) if events else ms.generate(wl)
    out = ms.expected(script)
    gc = cfg.choices(list(collectors), [3 if c != "swiper" else 5 for c in collectors])[0]
    cg = cfg.choice(list(codegens))
    flags, workers, heap = tb.draw_gc_flags(cfg, gc)
    flags = [f for f in flags if not f.startswith("--max-heap-size") and not f.startswith("--min-heap-size")] + ["--max-heap-size=16M"]
    faults = tb.draw_faults(cfg, fault_free)
    tb.cap_fault_rates(faults, 200 + 30 * len(script), gc, 16, "--gc-verify" in flags)
    nthreads = script[0]
    sim = {"seed": cfg.getrandbits(48), "policy": tb.draw_policy(cfg, nthreads + 2, 400 + 60 * len(script) // 4),
           "hot": 0 if fault_free else cfg.choice([0, 300, 3000])}
    sim.update(faults)
    return {"index": i, "exe": ["sync", gc, cg, "sim"], "argv": script, "dora_flags": " ".join(flags), "sim": sim,
            "expect": {"rc": 0, "stdout": out, "stderr_empty": True}, "timeout": 300, "fault_free": fault_free,
            "tags": {"gc": gc, "codegen": cg, "profile": prof, "threads": nthreads, "policy": sim["policy"].split(":")[0], "fault_free": fault_free}}


def sync_shrink(argv):
    params, threads = ms.parse(argv)
    # drop one non-blocking op at a time; drop produce/consume pairs of the same phase; drop a whole phase boundary is not attempted
    for t in range(len(threads)):
        for k in range(len(threads[t]) - 1, -1, -1):
            op = threads[t][k][0]
            if op in (2, 3, 6):
                continue
            th = [list(x) for x in threads]
            del th[t][k]
            yield ms.flatten(params, th)
    # produce+consume pair inside one phase
    def phase_of(ops, k):
        return sum(1 for o in ops[:k] if o[0] == 6)
    for t in range(len(threads)):
        for k, o in enumerate(threads[t]):
            if o[0] != 2:
                continue
            ph = phase_of(threads[t], k)
            for t2 in range(len(threads)):
                for k2, o2 in enumerate(threads[t2]):
                    if o2[0] == 3 and phase_of(threads[t2], k2) == ph:
                        th = [list(x) for x in threads]
                        del th[t][k]
                        if t2 == t and k2 > k:
                            del th[t2][k2 - 1]
                        else:
                            del th[t2][k2]
                        yield ms.flatten(params, th)
                        break
                else:
                    continue
                break
    # smaller LOCKINC counts
    for t in range(len(threads)):
        for k, o in enumerate(threads[t]):
            if o[0] == 0 and o[2] > 1:
                th = [list(x) for x in threads]
                th[t][k] = (0, o[1], 1, o[3])
                yield ms.flatten(params, th)


def sync_expect(argv, run):
    e = dict(run["expect"])
    e["stdout"] = ms.expected(argv)
    return e


def c09_tier_b(tier, quick_s=60, thorough_s=1200, write=True):
    return run_tier_b_property(
        "C09", tier, quick_s=quick_s, thorough_s=thorough_s, drivers=["sync"], collectors=["copy", "sweep", "swiper"], codegens=["cannon", "boots"],
        make_run=sync_run, shrink=sync_shrink, expect_fn=sync_expect, write=write, key_fn=heap_key,
        level_text="seeded search over generated lock/condition/barrier/queue/join/atomic scripts (schedule-independent expected final state) x collector x code generator x schedule x injected collections that move mutex/condition objects while threads are queued; oracle = model output, in-driver exclusion assertions, deadlock detection (all tasks blocked = lost wake-up), no runtime assertion, M-stw")


# ---------------------------------------------------------------------------------- C13

def ex_run(seed, prop, i, fault_free, collectors=("zero", "copy", "sweep", "swiper"), codegens=("cannon", "boots")):
    wl = tb.stream(seed, prop, i, "workload")
    cfg = tb.stream(seed, prop, i, "config")
    gc = cfg.choices(list(collectors), [2 if c == "zero" else 4 for c in collectors])[0]
    cg = cfg.choice(list(codegens))
    heap_mb = cfg.choice([4, 8, 16, 32])
    script = mx.generate(wl, heap_mb << 20, gc)
    if script[0] == 1:
        # number of objects retained before the heap is exhausted: keep it below ~200 000 by
        # using a smaller heap for small objects (a run that retains a million objects costs
        # minutes of simulated collections and tells nothing more)
        objsize = mx.ESZ.get(script[3], 32) * script[4] + 16 if script[3] != 9 else 32
        while heap_mb > 4 and (heap_mb << 20) // max(objsize, 16) > 200_000:
            heap_mb //= 2
        nobjects = (heap_mb << 20) // max(objsize, 16)
    else:
        nobjects = 0
    flags = ["--max-heap-size=%dM" % heap_mb, "--gc-worker=%d" % cfg.choice([1, 2, 4])]
    if cfg.random() < 0.15 and nobjects < 20000:
        # without TLABs every allocation takes the allocator locks: keep such runs short
        flags.append("--disable-tlab")
    if gc == "swiper" and cfg.random() < (0.7 if script[0] == 1 else 0.4):
        flags.append("--gc-young-size=%dM" % cfg.choice([1, 2]))
    faults = tb.draw_faults(cfg, fault_free)
    tb.cap_fault_rates(faults, 30000 + nobjects, gc, heap_mb, False, run_budget_ms=600)
    sim = {"seed": cfg.getrandbits(48), "policy": tb.draw_policy(cfg, 3 + script[2], 3000), "hot": 0 if fault_free else cfg.choice([0, 300, 3000]),
           "maxsteps": 400_000_000}
    sim.update(faults)
    alts = mx.expected(script, heap_mb << 20, gc)
    return {"index": i, "exe": ["exhaust", gc, cg, "sim"], "argv": script, "dora_flags": " ".join(flags), "sim": sim,
            "expect": {"alternatives": alts}, "timeout": 300, "fault_free": fault_free,
            "tags": {"gc": gc, "codegen": cg, "mode": script[0], "where": script[1], "bystanders": script[2], "heap_mb": heap_mb,
                     "policy": sim["policy"].split(":")[0], "fault_free": fault_free}}


def ex_shrink(argv):
    mode, where, nby, a, b = argv
    if nby > 0:
        yield [mode, where, 0, a, b]
        yield [mode, where, nby - 1, a, b]
    if where != 0:
        yield [mode, 0, nby, a, b]


def ex_expect(argv, run):
    heap_mb = run["tags"]["heap_mb"]
    return {"alternatives": mx.expected(argv, heap_mb << 20, run["exe"][1])}


def c13_real_thread_batch(tier):
    """Stack exhaustion on REAL thread stacks (the simulator's coroutine stacks are 4 MiB):
    real executables (baseline generator) recurse with ~320 KiB and ~8 KiB frames on the main
    and on a spawned thread, starting at a seeded number of small padding frames so that the
    frame that crosses the limit starts at many different offsets."""
    import subprocess
    exes = tb.build_executables(["bigframe"], ["swiper", "copy"], ["cannon"], sim=False, real=True)
    s = seed()
    rng = tb.stream(s, "C13", 0, "bigframe")
    n = 160 if tier == "quick" else 1500
    cases = []
    for i in range(n):
        cases.append((rng.choice(["swiper", "copy"]), rng.choice([0, 1, 1]), rng.choice([7, 7, 7, 8, 8, 9]), rng.randrange(0, 600)))

    def one(c):
        gc, where, shape, pad = c
        exe = exes[("bigframe", gc, "cannon", "real")]
        try:
            p = subprocess.run([exe, str(where), str(shape), str(pad)], stdout=subprocess.PIPE, stderr=subprocess.PIPE, timeout=120)
            rc, out, err = p.returncode, p.stdout.decode(errors="replace"), p.stderr.decode(errors="replace")
        except subprocess.TimeoutExpired:
            return c, ("timeout", "no termination")
        first = err.splitlines()[0] if err.strip() else ""
        if rc == 107 and out == "start\n" and first == "stack overflow":
            return c, None
        if rc < 0:
            return c, ("signal:%d" % -rc, "recursion with frame shape %d at padding %d on %s died with signal %d instead of the stack-overflow trap" % (shape, pad, "a spawned thread" if where else "the main thread", -rc))
        return c, ("exit:%d" % rc, "stdout %r stderr %r" % (out[:40], first[:60]))

    from concurrent.futures import ThreadPoolExecutor
    vio = []
    with ThreadPoolExecutor(JOBS) as ex:
        for c, v in ex.map(one, cases):
            if v is not None:
                vio.append((c, v))
    return len(cases), vio


def c13(tier):
    t0 = time.time()
    b = run_tier_b_property(
        "C13", tier, quick_s=60, thorough_s=1200, drivers=["exhaust"], collectors=["zero", "copy", "sweep", "swiper"], codegens=["cannon", "boots"],
        make_run=ex_run, shrink=ex_shrink, expect_fn=ex_expect, key_fn=ex_key, write=False,
        level_text="seeded search over exhaustion scripts (single requests with boundary lengths x element sizes, retain-until-OOM, unbounded recursion with 7 frame shapes, churn with a small live set) on main or a spawned thread with 0-4 bystander threads x collector x code generator x heap size x schedule x injected collections; oracle = documented trap (status + first stderr line) or the normal result, stdout delivered before the trap, never a signal / Rust panic / deadlock / step-budget overrun")
    exit_code, cov, reported = b
    n, vio = c13_real_thread_batch(tier)
    seen = set()
    for c, v in vio:
        key = "bigframe:%s:%s%s" % ("thread" if c[1] else "main", "giant-frame:" if c[2] == 9 else "", v[0])
        if key in seen:
            continue
        seen.add(key)
        rp = save_replay("C13", {"property": "C13", "tier": "C", "case": {"gc": c[0], "where": c[1], "shape": c[2], "pad": c[3], "argv": [c[1], c[2], c[3]], "driver": "bigframe"},
                                 "violation_class": v[0], "violation": v[1], "occurrences": sum(1 for x in vio if x[1][0] == v[0])})
        k = match_known("C13", key)
        if k:
            report_known("C13", k["what"])
        else:
            report_violation("C13", rp)
            log("  class=%s detail=%s" % v)
            exit_code = 1
        reported.append({"class": v[0], "detail": v[1], "replay": rp, "key": key})
    cov["evaluations"] += n
    cov["distinct_nontrivial"] += len(set(c for c, v in [(c, None) for c in []])) + (n - len(vio))
    cov["real_thread_stack_batch"] = {"runs": n, "violations": len(vio), "what": "real executables (baseline generator) recursing with ~2.3 MiB / ~320 KiB / ~8 KiB frames on main and spawned threads, padding 0..599 small frames"}
    cov["violations_reported"] = reported
    write_evidence("C13", tier, "exploration", cov, time.time() - t0, len(reported), ASSUME_B + ["the real-thread batch runs outside the simulator: single recursing thread, no schedule to control"])
    return exit_code


def ex_key(run, v, res=None):
    mode, where, nby, a, b = run["argv"]
    if mode == 0:
        kind = "negative-length" if b < 0 else "huge-length"
        cls = v[0] if v[0].startswith("trap:") else v[0].split(":")[0]
        return "exhaust:%s:%s:%s" % (run["exe"][2], kind, cls)
    return "exhaust:%s:mode%d:%s" % (run["exe"][2], mode, v[0])


def combine(prop, tier, parts, t0, assumptions):
    """Merge the coverage of a Tier A and a Tier B part into one evidence file."""
    exit_code = max(p[0] for p in parts)
    cov = {
        "evaluations": sum(p[1]["evaluations"] for p in parts),
        "distinct_nontrivial": sum(p[1]["distinct_nontrivial"] for p in parts),
        "rule": " || ".join("[%s] %s" % (name, p[1]["rule"]) for name, p in zip(("tier A", "tier B"), parts)),
        "samples": [s for p in parts for s in p[1]["samples"][:2]],
        "simulated_runs": sum(p[1]["simulated_runs"] for p in parts),
        "runs_per_hour": sum(p[1]["runs_per_hour"] for p in parts),
        "simulated_time_scheduler_steps": sum(p[1]["simulated_time_scheduler_steps"] for p in parts),
        "fault_kinds_fired": {k: v for p in parts for k, v in p[1]["fault_kinds_fired"].items()},
        "tier_A": {k: v for k, v in parts[0][1].items() if k not in ("samples", "rule")},
        "tier_B": {k: v for k, v in parts[1][1].items() if k not in ("samples", "rule")},
        "violations_reported": [r for p in parts for r in p[2]],
    }
    write_evidence(prop, tier, "exploration", cov, time.time() - t0, len(cov["violations_reported"]), assumptions)
    return exit_code


def c09(tier):
    import tier_a
    t0 = time.time()
    a = tier_a.run_tier_a(
        "C09", "waitq", tier, quick_s=35, thorough_s=600, write=False,
        level_text="seeded schedules over generated scenarios of critical sections, condition waits/signals, lonely notifications, joins and moving collections",
        real=["dora-runtime/src/runtime/waitlists.rs (WaitLists, ObjectHashMap incl. rehash on a new GC epoch, visit_roots)",
              "dora-runtime/src/threads.rs (DoraThread::block / prepare_for_waitlist / set_waitlist_successor / remove_from_waitlist / join / stop, parked_scope)",
              "dora-runtime/src/safepoint.rs (stop_the_world around the relocation)"],
        stub=["pkgs/std/thread.dora lock-word protocol transliterated to Rust with every atomic a scheduling point",
              "mutex / condition objects are fabricated in harness memory; relocation copies them, updates handle slots and wait-table keys (via visit_roots) and bumps the GC epoch"],
        assumptions=["sequentially consistent interleavings", "at most 6 objects are keyed in the wait table at once (table capacity stays 8)"])
    b = c09_tier_b(tier, quick_s=60, thorough_s=900, write=False)
    return combine("C09", tier, [a, b], t0, ASSUME_B + ["Tier A: the lock-word protocol is a Rust transliteration of thread.dora"])


def c12_tier_b_run(seed, prop, i, fault_free):
    """Real parallel marking / evacuation with 1, 2, 4, 8 workers over generated object graphs."""
    if i % 4 == 3:
        # several mutator threads: their write barriers fill the remembered set concurrently,
        # the parallel phases then have to process every entry exactly once
        r = mt_run(seed, prop, i, fault_free, collectors=("swiper",))
        if not fault_free:
            r["sim"]["pminor"] = max(r["sim"]["pminor"], 300)
            r["sim"]["hot"] = max(r["sim"]["hot"], 3000)
        return r
    r = hg_run(seed, prop, i, fault_free, collectors=("swiper",), profile=tb.stream(seed, prop, i, "profile").choice(["links", "arrays", "deep", "interior", "mixed", "wide", "wide", "wide"]), max_ops=120)
    cfg = tb.stream(seed, prop, i, "workers")
    workers = cfg.choice([1, 2, 2, 4, 8, 8])
    flags = [f for f in r["dora_flags"].split() if not f.startswith("--gc-worker")] + ["--gc-worker=%d" % workers]
    if "--gc-verify" not in flags and cfg.random() < 0.7:
        flags.append("--gc-verify")
    r["dora_flags"] = " ".join(flags)
    r["tags"]["workers"] = workers
    if not fault_free:
        # collections are the workload here: make sure some are injected
        r["sim"]["pminor"] = max(r["sim"]["pminor"], 300)
        r["sim"]["pfull"] = max(r["sim"]["pfull"], 300)
        tb.cap_fault_rates(r["sim"], len(r["argv"]) * 3, "swiper", r["tags"]["heap_mb"], True)
    return r


def c12(tier):
    import tier_a
    t0 = time.time()
    a = tier_a.run_tier_a(
        "C12", "term", tier, quick_s=30, thorough_s=600, write=False,
        level_text="seeded random / sticky / PCT / starvation schedules over generated pool scenarios; sampled, not exhaustive",
        real=["dora-runtime/src/gc/swiper/terminator.rs (Terminator::new, try_terminate, wake_up) compiled from /repo's working tree"],
        stub=["work pool: private segment + stealable deque per worker + shared injector, modelled as indivisible steps behind a simulator mutex (crossbeam-deque itself is not simulated)",
              "worker loop: transliteration of MarkingTask::run / CopyTask::trace_gray_objects (pop, process, publish + wake_up, try_terminate)"],
        assumptions=["sequentially consistent interleavings only", "parking_lot condvars have no spurious wake-ups", "callers publish before they poll"])
    b = run_tier_b_property(
        "C12", tier, quick_s=45, thorough_s=900, drivers=["heapgraph", "mtheap"], collectors=["swiper"], codegens=["cannon", "boots"],
        make_run=c12_tier_b_run, shrink=_ShrinkByDriver({"heapgraph": hg_shrink, "mtheap": mt_shrink}), expect_fn=hg_expect, write=False, key_fn=heap_key,
        level_text="real parallel marking (marking.rs) and parallel evacuation (minor.rs) with 1/2/4/8 workers as simulator tasks, real work stealing and termination detection, over generated object graphs; oracle = reference model + gc-verify + deadlock detection")
    return combine("C12", tier, [a, b], t0, ASSUME_B)


def c04_tier_b_run(seed, prop, i, fault_free):
    """Stop-the-world inside real executables: threads entering and leaving natives, starting,
    exiting, blocking in the wait table and at barriers while collections are requested by
    several threads at once (sync and mtheap scripts); M-stw armed in every operation."""
    if i % 6 == 5:
        # the out-of-memory report, the third kind of stop-the-world operation: one thread
        # exhausts the heap while 1-4 bystander threads run, allocate and sit in natives
        r = ex_run(seed, prop, i, fault_free, collectors=("copy", "sweep", "swiper"))
        if r["argv"][0] != 1 or r["argv"][2] == 0:
            wl = tb.stream(seed, prop, i, "oom")
            r["argv"] = [1, wl.choice([0, 1]), wl.choice([1, 2, 4]), wl.choice([0, 2, 3, 9]), wl.choice([0, 1, 100, 1000, 4093, 8192, 40000])]
            r["expect"] = {"alternatives": mx.expected(r["argv"], r["tags"]["heap_mb"] << 20, r["exe"][1])}
            r["tags"].update({"mode": 1, "where": r["argv"][1], "bystanders": r["argv"][2]})
        return r
    if i % 2 == 0:
        r = sync_run(seed, prop, i, fault_free)
    else:
        r = mt_run(seed, prop, i, fault_free)
    if not fault_free:
        r["sim"]["pminor"] = max(r["sim"].get("pminor", 0), 400)
        r["sim"]["pfull"] = max(r["sim"].get("pfull", 0), 200)
        tb.cap_fault_rates(r["sim"], 300 + len(r["argv"]), r["exe"][1], 16, "--gc-verify" in r["dora_flags"])
    return r


def c04_expect(argv, run):
    if run["exe"][0] == "exhaust":
        return ex_expect(argv, run)
    e = dict(run["expect"])
    e["stdout"] = ms.expected(argv) if run["exe"][0] == "sync" else mm.expected(argv)
    return e


def c04(tier):
    import tier_a
    t0 = time.time()
    a = tier_a.run_tier_a(
        "C04", "stw", tier, quick_s=40, thorough_s=900, write=False,
        level_text="seeded random / sticky / PCT / starvation schedules over generated 2-4 thread scenarios of polls, managed steps, native calls, concurrent stop-the-world requests, thread start, join and exit; sampled, not exhaustive",
        real=["dora-runtime/src/safepoint.rs (stop_the_world, stop_threads, resume_threads, safepoint_slow)",
              "dora-runtime/src/threads.rs (DoraThread::park/park_slow/unpark/unpark_slow/join/stop, parked_scope, Barrier, Threads::add_main_thread/add_thread/remove_current_thread/join_all)",
              "dora-runtime/src/runtime.rs (Runtime state), all compiled from /repo's working tree with every mutex, condvar and the thread state byte as scheduling points"],
        stub=["compiled code's safepoint poll (cmpb [tld.state],0; jne slow) transliterated as a load + call of the real safepoint_slow",
              "managed work = a step that sets a harness flag and increments a fake heap word",
              "the collector = the checking closure passed to the real stop_the_world",
              "Runtime built with the zero collector and an empty Program"],
        assumptions=["sequentially consistent interleavings only (shuttle); the protocol uses SeqCst on the state byte"])
    b = run_tier_b_property(
        "C04", tier, quick_s=35, thorough_s=600, drivers=["sync", "mtheap", "exhaust"], collectors=["copy", "sweep", "swiper"], codegens=["cannon", "boots"],
        make_run=c04_tier_b_run, shrink=_ShrinkByDriver({"sync": sync_shrink, "mtheap": mt_shrink, "heapgraph": hg_shrink, "exhaust": ex_shrink}), expect_fn=c04_expect, write=False, key_fn=heap_key,
        level_text="M-stw monitor (every other registered thread Parked / ParkedSafepointRequested / Safepoint, runtime state Safepoint, one operation at a time, no managed allocation entering the runtime during the operation) armed in every collection of real multi-threaded executables under seeded schedules and injected collections; deadlock detection = nobody left out / no lost wake-up")
    return combine("C04", tier, [a, b], t0, ASSUME_B)
