"""Tier B: whole-executable deterministic simulation.

The linked Dora executable (compiled Dora code + runtime + collector + GC worker pool +
concurrent sweeper) runs inside one OS thread under the seeded scheduler; a fault controller
injects collections and allocation failures at seeded allocations. This module builds the
simulated executables from /repo's working tree, generates runs from the seed, executes
them on 16 processes, checks the oracles, minimises and writes replay files.
"""
import hashlib, json, os, random, re, subprocess, sys, time
from concurrent.futures import ThreadPoolExecutor
from common import *

TB = os.path.join(WORK, "tb")
TRAPS = {101: "DIV0", 102: "ASSERT", 103: "INDEX_OUT_OF_BOUNDS", 104: "NIL", 105: "CAST", 106: "OOM",
         107: "STACK_OVERFLOW", 108: "ILLEGAL", 109: "OVERFLOW", 110: "SHIFT"}


def stream(seed, prop, index, name):
    h = hashlib.sha256(("%d:%s:%d:%s" % (seed, prop, index, name)).encode()).digest()
    return random.Random(int.from_bytes(h[:8], "little"))


def sh(cmd, cwd=None, timeout=600):
    """Run a build step; on timeout the whole process group is killed (the compile driver
    spawns the code generator and gcc as children)."""
    import signal
    proc = subprocess.Popen(cmd, cwd=cwd, env=ENV, stdout=subprocess.PIPE, stderr=subprocess.PIPE, start_new_session=True)
    try:
        out, err = proc.communicate(timeout=timeout)
    except subprocess.TimeoutExpired:
        try:
            os.killpg(proc.pid, signal.SIGKILL)
        except ProcessLookupError:
            pass
        out, err = proc.communicate()
        return subprocess.CompletedProcess(cmd, -9, out, (err or b"") + b"\n[timeout after %ds]" % timeout)
    return subprocess.CompletedProcess(cmd, proc.returncode, out, err)


def build_executables(drivers, collectors, codegens, sim=True, real=False, sources=None, only=None):
    """Returns {(driver, gc, cg, 'sim'|'real'): path}. Everything is rebuilt from the working tree."""
    os.makedirs(TB, exist_ok=True)
    dbg = build_repo(("dora", "dora-runtime", "dora-startup"))
    dora = os.path.join(dbg, "dora")
    simlib = None
    if sim:
        rel = build_sim(("dora-startup",))
        simlib = os.path.join(rel, "libdora_startup.a")
    boots = None
    if "boots" in codegens:
        t0 = time.time()
        boots = os.path.join(TB, "boots-stage1")
        p = sh([dora, "compile", "--internal-compile-boots", "--cannon", os.path.join(REPO, "pkgs/boots/boots.dora"), "-o", boots])
        if p.returncode != 0:
            harness_error("building boots stage1 failed: " + p.stderr.decode(errors="replace")[-3000:])
        log("built boots stage1 in %.1fs" % (time.time() - t0))
    jobs = []
    for d in drivers:
        for gc in collectors:
            for cg in codegens:
                if only is None or only(d, gc, cg):
                    jobs.append((d, gc, cg))

    def one(job):
        d, gc, cg = job
        src = (sources or {}).get(d) or os.path.join(VERIF, "workloads", d.split("@")[0] + ".dora")
        if "@" in d and not (sources or {}).get(d):
            # layout variant of a driver ("heapgraph@3"): generated source, same behaviour
            import model_heapgraph
            makers = {"heapgraph": model_heapgraph.make_variant}
            name, vid = d.split("@")
            src = os.path.join(TB, "%s-v%s-%s-%s.dora" % (name, vid, gc, cg))
            makers[name](src, int(vid))
        base = os.path.join(TB, "%s-%s-%s" % (d.replace("@", "-v"), gc, cg))
        cmd = [dora, "compile", "-S", "--gc=" + gc, src, "-o", base]
        cmd += ["--cannon"] if cg == "cannon" else ["--compiler", boots]
        p = sh(cmd)
        if p.returncode != 0:
            return job, "compile failed: " + (p.stderr.decode(errors="replace") + p.stdout.decode(errors="replace"))[-3000:]
        p = sh(["gcc", "-c", base + ".s", "-o", base + ".o"])
        if p.returncode != 0:
            return job, "assemble failed: " + p.stderr.decode(errors="replace")[-2000:]
        out = {}
        if sim:
            p = sh(["gcc", base + ".o", simlib, "-Wl,-x", "-lpthread", "-ldl", "-lm", "-o", base + ".sim"])
            if p.returncode != 0:
                return job, "link failed: " + p.stderr.decode(errors="replace")[-2000:]
            out["sim"] = base + ".sim"
        if real:
            p = sh(["gcc", base + ".o", os.path.join(dbg, "libdora_startup.a"), os.path.join(dbg, "libdora_runtime.a"), "-Wl,-x", "-lpthread", "-ldl", "-lm", "-o", base + ".real"])
            if p.returncode != 0:
                return job, "link(real) failed: " + p.stderr.decode(errors="replace")[-2000:]
            out["real"] = base + ".real"
        return job, out

    t0 = time.time()
    exes = {}
    with ThreadPoolExecutor(JOBS) as ex:
        for job, res in ex.map(one, jobs):
            if isinstance(res, str):
                harness_error("%s: %s" % (job, res))
            for kind, path in res.items():
                exes[job + (kind,)] = path
    log("built %d driver executables in %.1fs" % (len(exes), time.time() - t0))
    return exes


def norm_msg(s):
    s = re.sub(r"0x[0-9a-fA-F]+", "0x?", s)
    s = re.sub(r"\b\d{3,}\b", "N", s)
    return s.strip()[:200]


def classify(run, res):
    """Returns None if the run satisfied its oracle, else (class, detail)."""
    rc, out, err, stats = res["rc"], res["stdout"], res["stderr"], res["stats"]
    exp = run["expect"]
    if exp.get("stdout_strip"):
        # marker lines printed by other threads may sit between any two print calls
        nm = out.count(exp["stdout_strip"])
        if nm > exp.get("stdout_strip_max", 10**9):
            return ("output-mismatch", "%d marker lines, at most %d were written" % (nm, exp["stdout_strip_max"]))
        out = out.replace(exp["stdout_strip"], "")
    first_err = err.splitlines()[0] if err.strip() else ""
    if res.get("timeout"):
        return ("timeout", "no result within %ds" % run.get("timeout", 0))
    mm = re.search(r"VERIF-MONITOR ([\w-]+): ([^\n]*)", err)
    if mm:
        # a monitor fired (possibly inside an extern "C" frame, where the panic aborts)
        return ("monitor:" + mm.group(1), norm_msg(mm.group(2)))
    if rc == 70 or "VERIF-PANIC" in err:
        m = re.search(r"VERIF-PANIC: (.*)", err)
        msg = m.group(1) if m else first_err
        if "deadlock" in msg:
            return ("deadlock", norm_msg(msg))
        if "max_steps" in msg:
            return ("step-budget", norm_msg(msg))
        mm = re.search(r"VERIF-MONITOR ([\w-]+):", msg)
        if mm:
            return ("monitor:" + mm.group(1), norm_msg(msg))
        # the panic message printed by the default hook carries the location
        loc = re.search(r"panicked at ([^\n]+?):(\d+):\d+", err)
        where = (os.path.basename(loc.group(1)) + ":" + loc.group(2)) if loc else "?"
        return ("panic:" + where, norm_msg(msg))
    if "panicked at" in err:
        # a Rust panic (runtime assertion); it usually ends in SIGABRT because it cannot
        # unwind through compiled code - classify by the source location of the first panic
        loc = re.search(r"panicked at ([^\n]+?):(\d+):\d+", err)
        where = (os.path.basename(loc.group(1)) + ":" + loc.group(2)) if loc else "?"
        return ("panic:" + where, norm_msg(err.split("panicked at", 1)[1][:300]))
    if rc < 0:
        return ("signal:%d" % (-rc), first_err[:200])
    if "alternatives" in exp:
        # several acceptable outcomes (status, exact stdout, first stderr line)
        for (arc, aout, aerr) in exp["alternatives"]:
            if rc == arc and out == aout and (aerr is None and not err.strip() or aerr == first_err):
                return None
        want = " | ".join("status %d %r" % (a[0], a[2]) for a in exp["alternatives"])
        if rc in TRAPS and not any(rc == a[0] for a in exp["alternatives"]):
            return ("trap:" + TRAPS[rc], "exit status %d (%s) %r, expected %s" % (rc, TRAPS[rc], first_err[:80], want))
        if any(rc == a[0] for a in exp["alternatives"]):
            return ("output-mismatch", "status %d as expected but stdout %r / stderr %r differ (expected %s)" % (rc, out[:80], first_err[:80], want))
        return ("exit:%d" % rc, "stdout %r stderr %r, expected %s" % (out[:60], first_err[:80], want))
    exp_rc = exp.get("rc", 0)
    if rc != exp_rc:
        if rc in TRAPS:
            return ("trap:" + TRAPS[rc], "exit status %d (%s), expected %d; stderr: %s" % (rc, TRAPS[rc], exp_rc, first_err[:120]))
        return ("exit:%d" % rc, "expected %d; stderr: %s" % (exp_rc, first_err[:120]))
    if "stdout" in exp and out != exp["stdout"]:
        # first differing line
        a, b = out.splitlines(), exp["stdout"].splitlines()
        i = 0
        while i < min(len(a), len(b)) and a[i] == b[i]:
            i += 1
        return ("output-mismatch", "line %d: got %r expected %r" % (i + 1, a[i] if i < len(a) else None, b[i] if i < len(b) else None))
    if "stdout_prefix_of" in exp and not exp["stdout_prefix_of"].startswith(out):
        return ("output-mismatch", "stdout is not a prefix of the expected output")
    if "stderr_first" in exp and first_err != exp["stderr_first"]:
        return ("stderr-mismatch", "got %r expected %r" % (first_err[:100], exp["stderr_first"]))
    if exp.get("stderr_empty") and err.strip():
        return ("stderr-nonempty", first_err[:200])
    return None


def sim_string(sim):
    return ",".join("%s=%s" % (k, v) for k, v in sorted(sim.items()))


def execute(run, exes, statsfile=None, record=False):
    exe = exes[tuple(run["exe"])]
    env = dict(os.environ)
    env["DORA_FLAGS"] = run["dora_flags"]
    sim = dict(run["sim"])
    own_stats = statsfile is None
    if statsfile is None:
        statsfile = os.path.join(TB, "stats-%d-%d.json" % (os.getpid(), id(run) % 1000003))
    sim["stats"] = statsfile
    if record:
        sim["record"] = 1
    env["VERIF_SIM"] = sim_string(sim)
    args = [exe] + [str(a) for a in run["argv"]]
    if os.path.exists(statsfile):
        os.remove(statsfile)
    t0 = time.time()
    timeout = run.get("timeout", 120)
    import tempfile, shutil
    cwd = tempfile.mkdtemp(prefix="run-", dir=TB)  # drivers may create files: one scratch directory per run
    try:
        p = subprocess.run(args, env=env, stdout=subprocess.PIPE, stderr=subprocess.PIPE, timeout=timeout, cwd=cwd)
        rc, out, err, to = p.returncode, p.stdout, p.stderr, False
    except subprocess.TimeoutExpired as e:
        rc, out, err, to = -9, e.stdout or b"", e.stderr or b"", True
    finally:
        shutil.rmtree(cwd, ignore_errors=True)
    stats = {}
    try:
        stats = json.load(open(statsfile))
    except Exception:
        pass
    if own_stats and os.path.exists(statsfile):
        os.remove(statsfile)
    return {"rc": rc, "stdout": out.decode(errors="replace"), "stderr": err.decode(errors="replace")[:4000], "stats": stats,
            "timeout": to, "wall": time.time() - t0}


def draw_policy(rng, ntasks, est):
    r = rng.random()
    if r < 0.25:
        return "random"
    if r < 0.5:
        return "sticky:%d" % rng.choice([128, 200, 240, 252])
    if r < 0.8:
        return "pct:%d:%d" % (rng.randint(1, 5), est)
    if r < 0.9:
        return "starve:%d:%d" % (rng.randrange(max(ntasks, 1)), rng.choice([0, 128, 230]))
    return "sticky:254"


def draw_faults(rng, fault_free=False):
    if fault_free:
        return {"pminor": 0, "pfull": 0, "pfail": 0, "burst": 0}
    kinds = rng.sample(["pminor", "pfull", "pfail"], rng.randint(1, 3))
    f = {"pminor": 0, "pfull": 0, "pfail": 0, "burst": rng.choice([0, 0, 3, 20])}
    for k in kinds:
        f[k] = rng.choice([20, 200, 2000, 10000, 40000] if k != "pfail" else [20, 200, 2000, 8000])
    return f


def gc_cost_ms(gc, heap_mb, verify):
    """Rough wall-clock cost of one collection under the simulator (measured: swiper pays
    per-page mmap/mprotect/madvise calls proportional to the heap size)."""
    c = 0.25 * heap_mb if gc == "swiper" else 0.05 * heap_mb + 0.3
    return c * (2.0 if verify else 1.0) + 0.2


def cap_fault_rates(faults, allocs_est, gc, heap_mb, verify, run_budget_ms=800):
    """Keep the expected number of injected collections per run inside a wall-clock budget:
    many short runs beat a few long ones. Scales all three rates by the same factor."""
    total = faults["pminor"] + faults["pfull"] + faults["pfail"]
    if total == 0:
        return
    max_gcs = max(3.0, run_budget_ms / gc_cost_ms(gc, heap_mb, verify))
    expected = allocs_est * total / 65536.0 * (1 + faults.get("burst", 0) / 8.0)
    if expected > max_gcs:
        f = max_gcs / expected
        for k in ("pminor", "pfull", "pfail"):
            if faults[k]:
                faults[k] = max(1, int(faults[k] * f))


def draw_gc_flags(rng, gc, small_heap_ok=True):
    flags = []
    workers = rng.choice([1, 2, 4, 8])
    flags.append("--gc-worker=%d" % workers)
    heap = rng.choice([8, 8, 16, 16, 32, 128])
    flags.append("--max-heap-size=%dM" % heap)
    if rng.random() < 0.5:
        flags.append("--min-heap-size=%dM" % rng.choice([1, 4, heap]))
    if gc == "swiper" and rng.random() < 0.5:
        flags.append("--gc-young-size=%dM" % rng.choice([1, 2, 4]))
    if rng.random() < 0.15:
        flags.append("--disable-tlab")
    if rng.random() < 0.4:
        flags.append("--gc-verify")
    return flags, workers, heap


class Batch:
    """Runs a list of run descriptions on JOBS processes, checks oracles, collects stats."""

    def __init__(self, prop, exes):
        self.prop = prop
        self.exes = exes
        self.results = []
        self.violations = []
        self.counters = {"runs": 0, "decisions": 0, "choice_points": 0, "preemptions": 0, "gc_minor_injected": 0, "gc_full_injected": 0,
                         "alloc_fail_injected": 0, "stw_operations": 0, "allocs": 0, "hot_taken": 0, "sweeps": 0, "wall_in_runs": 0.0}
        self.distinct = set()
        self.by = {}
        self.samples = []

    def run_all(self, runs, budget_s=None):
        t0 = time.time()

        def one(run):
            if budget_s is not None and time.time() - t0 > budget_s:
                return run, None
            return run, execute(run, self.exes)

        with ThreadPoolExecutor(JOBS) as ex:
            for run, res in ex.map(one, runs):
                if res is None:
                    continue
                self.account(run, res)
        return time.time() - t0

    def account(self, run, res):
        c = self.counters
        c["runs"] += 1
        st = res["stats"]
        for k in ("decisions", "choice_points", "preemptions", "gc_minor_injected", "gc_full_injected", "alloc_fail_injected", "stw_operations", "allocs", "hot_taken", "sweeps"):
            c[k] += st.get(k, 0)
        c["wall_in_runs"] += res["wall"]
        for k, v in run.get("tags", {}).items():
            key = "%s=%s" % (k, v)
            self.by[key] = self.by.get(key, 0) + 1
        v = classify(run, res)
        fired = st.get("gc_minor_injected", 0) + st.get("gc_full_injected", 0) + st.get("alloc_fail_injected", 0)
        nontrivial = st.get("preemptions", 0) > 0 and (fired > 0 or run.get("fault_free"))
        if nontrivial and v is None:
            h = hashlib.sha256(json.dumps([run["argv"], run["exe"], run["dora_flags"], st.get("trace_hash")]).encode()).hexdigest()[:16]
            self.distinct.add(h)
            if len(self.samples) < 3:
                self.samples.append({"index": run["index"], "exe": run["exe"], "dora_flags": run["dora_flags"], "sim": run["sim"],
                                     "argv": run["argv"][:60], "argv_len": len(run["argv"]),
                                     "stats": {k: st.get(k) for k in ("decisions", "preemptions", "trace_hash", "gc_minor_injected", "gc_full_injected", "alloc_fail_injected", "stw_operations", "max_task")}})
        if v is not None:
            self.violations.append((run, res, v))


def determinism_gate(prop, exes, runs, n=6):
    """Run n runs twice (different processes, different concurrency): identical observable
    tuples required; a mismatch is a harness error (exit 2), never a VIOLATION."""
    sel = runs[:n]
    a = [execute(r, exes) for r in sel]
    with ThreadPoolExecutor(n) as ex:
        b = list(ex.map(lambda r: execute(r, exes), sel))
    for r, x, y in zip(sel, a, b):
        tx = (x["rc"], x["stdout"], x["stats"].get("trace_hash"), x["stats"].get("decisions"), x["stats"].get("allocs"), x["stats"].get("gc_minor_injected"), x["stats"].get("gc_full_injected"))
        ty = (y["rc"], y["stdout"], y["stats"].get("trace_hash"), y["stats"].get("decisions"), y["stats"].get("allocs"), y["stats"].get("gc_minor_injected"), y["stats"].get("gc_full_injected"))
        if tx != ty:
            harness_error("determinism gate failed for %s run %d: %r vs %r" % (prop, r["index"], tx[2:], ty[2:]))
    return len(sel)


def replay_obj(prop, run, res, v, minimised=False):
    return {"property": prop, "tier": "B", "run": run, "violation_class": v[0], "violation": v[1],
            "observed": {"rc": res["rc"], "stdout_head": res["stdout"][:2000], "stderr_head": res["stderr"][:2000], "stats": res["stats"]},
            "minimised": minimised}


def minimise(prop, exes, run, v, shrink, expect_fn, max_tests=150, budget_s=90, orig_wall=None):
    """Greedy shrinking: `shrink(argv)` yields smaller valid argv lists; the same violation
    class must persist. Afterwards injected faults are made explicit and dropped one by one."""
    cls = v[0]
    tests = 0
    cur = dict(run)
    best_res = None
    tstart = time.time()
    if orig_wall is not None and cls != "timeout":
        cur["timeout"] = max(10, int(orig_wall * 4) + 5)

    def fails(cand):
        nonlocal tests
        tests += 1
        if time.time() - tstart > budget_s:
            tests = 10**9
            return False, None, None
        res = execute(cand, exes, record=True)
        vv = classify(cand, res)
        return (vv is not None and vv[0] == cls), res, vv

    progress = True
    while progress and tests < max_tests:
        progress = False
        for argv in (shrink(cur["argv"]) if not hasattr(shrink, "by_driver") else shrink.by_driver[cur["exe"][0].split("@")[0]](cur["argv"])):
            if tests >= max_tests:
                break
            cand = dict(cur)
            cand["argv"] = argv
            cand["expect"] = expect_fn(argv, cur)
            ok, res, vv = fails(cand)
            if ok:
                cur, best_res, v = cand, res, vv
                progress = True
                break
    # explicit faults
    ok, res, vv = fails(cur)
    if ok:
        best_res, v = res, vv
        fired = res["stats"].get("fired", [])
        if fired and len(fired) <= 400:
            cand = dict(cur)
            cand["sim"] = dict(cur["sim"])
            cand["sim"]["faults"] = ";".join(fired)
            ok2, res2, vv2 = fails(cand)
            if ok2:
                cur, best_res, v = cand, res2, vv2
                i = 0
                fl = list(fired)
                while i < len(fl) and tests < max_tests + 100:
                    trial = fl[:i] + fl[i + 1:]
                    cand = dict(cur)
                    cand["sim"] = dict(cur["sim"])
                    cand["sim"]["faults"] = ";".join(trial) if trial else "0:-"
                    ok3, res3, vv3 = fails(cand)
                    if ok3:
                        fl = trial
                        cur, best_res, v = cand, res3, vv3
                    else:
                        i += 1
    return cur, best_res, v


def handle_violations(prop, batch, exes, shrink=None, expect_fn=None, key_fn=None):
    """Minimise, confirm by replay in a fresh process, apply known findings, print lines.
    Returns (exit_code, reported list)."""
    reported = []
    exit_code = 0
    seen = set()
    batch.violations.sort(key=lambda t: t[0]["index"])
    for run, res, v in batch.violations:
        k0 = key_fn(run, v, res) if key_fn else "%s:%s" % (run["exe"][0], v[0])
        if k0 in seen or len(seen) >= 6:
            continue
        seen.add(k0)
        if match_known(prop, k0):
            # a listed finding: confirm it still reproduces, report it as known, do not minimise
            cres = execute(run, exes)
            cv = classify(run, cres)
            if cv is not None:
                report_known(prop, match_known(prop, k0)["what"])
                reported.append({"class": cv[0], "detail": cv[1], "known_finding": k0})
            continue
        mrun, mres, mv = run, res, v
        if v[0] in ("timeout", "step-budget"):
            # wall-clock limits are the one thing the simulator does not control: re-run with a
            # three times larger limit before believing a hang (a loaded machine is not a hang).
            # The same for the step budget: a run that is merely long finishes under a four
            # times larger budget, a livelock exceeds any budget.
            again = dict(run)
            again["timeout"] = 3 * run.get("timeout", 120)
            if v[0] == "step-budget":
                again["sim"] = dict(run["sim"])
                again["sim"]["maxsteps"] = 4 * int(run["sim"].get("maxsteps", 50_000_000))
            ares = execute(again, exes)
            av = classify(again, ares)
            if av is None:
                log("  a run exceeded its %s once but finished in %.0fs when repeated with a larger one: not a hang (index %d)" % ("wall-clock limit" if v[0] == "timeout" else "step budget", ares["wall"], run["index"]))
                continue
            if av[0] == "timeout" and v[0] == "step-budget":
                log("  a run exceeded its step budget and, with a four times larger budget, its wall-clock limit: inconclusive, not reported (index %d)" % run["index"])
                continue
            if av[0] != v[0]:
                v = av
                res = ares
                mrun, mres, mv = again, ares, av
        if shrink is not None:
            try:
                mrun, mres2, mv2 = minimise(prop, exes, run, v, shrink, expect_fn, orig_wall=res.get("wall"))
                if mres2 is not None:
                    mres, mv = mres2, mv2
            except Exception as e:  # minimisation is best effort
                log("minimisation failed: %r" % (e,))
        # confirming replay in a fresh process
        cres = execute(mrun, exes)
        cv = classify(mrun, cres)
        if cv is None or cv[0] != v[0]:
            # fall back to the unminimised run
            cres = execute(run, exes)
            cv = classify(run, cres)
            mrun = run
            if cv is None or cv[0] != v[0]:
                harness_error("violation %s of %s did not reproduce on replay (run index %d)" % (v[0], prop, run["index"]))
        path = save_replay(prop, replay_obj(prop, mrun, cres, cv, minimised=(mrun is not run)))
        key = key_fn(mrun, cv, cres) if key_fn else "%s:%s" % (mrun["exe"][0], cv[0])
        k = match_known(prop, key)
        if k:
            report_known(prop, k["what"])
        else:
            report_violation(prop, path)
            log("  class=%s detail=%s" % (cv[0], cv[1]))
            exit_code = 1
        reported.append({"class": cv[0], "detail": cv[1], "replay": path, "key": key})
    return exit_code, reported


def replay_file(path):
    obj = json.load(open(path))
    run = obj["run"]
    d, gc, cg, kind = run["exe"]
    exes = build_executables([d], [gc], [cg], sim=(kind == "sim"), real=(kind == "real"))
    res = execute(run, exes)
    v = classify(run, res)
    if v is None:
        print("REPLAY-RESULT ok")
        return 0
    print("REPLAY-RESULT violation class=%s detail=%s" % v)
    return 1 if v[0] == obj["violation_class"] else 3
