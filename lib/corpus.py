"""The repository's own runnable corpus (test/rt, bench) as Tier B workloads for C03.

C03 quantifies over "generated object-graph programs ... plus the repository's runnable
corpus". The generated drivers are three fixed programs fed with scripts: their frames,
stack maps and reference-store shapes never change. The corpus adds ~1200 small programs
with as many different frame layouts, call shapes, generics, closures, structs/tuples/enums
in fields and arrays - each compiled from /repo's working tree for a drawn collector and
code generator, linked against the SIMULATED runtime, and executed under a seeded schedule
with collections / allocation failures injected at seeded allocations.

Oracle (differential, the statement of C03 itself): exit status, exact stdout and first
stderr line of the simulated, fault-injected run == those of the same program's fault-free
run (no injected fault, every task runs until it blocks) == those of the same program built
for a different collector. Programs whose outcome legitimately depends on heap or stack size (reference
ends in the out-of-memory / stack-overflow trap), on time, or on files outside the scratch
directory are skipped, with the reason counted.
"""
import hashlib, json, os, re, shutil, subprocess, tempfile, threading, time
from common import *
import tier_b as tb

SKIP_DIRS = ("io/",)            # read fixture files relative to the repository root, TCP
SKIP_FILES = {
    "stdlib/timestamp1.dora": "reads the wall clock",
}
SKIP_PATTERNS = [(re.compile(r"\btimestamp\b"), "reads the wall clock"),
                 (re.compile(r"std::io::|TcpStream|TcpListener"), "file / network I/O outside the scratch directory")]


ALLOC_RE = re.compile(r"force_collect|force_minor_collect|\bclass\b|\bVec\b|\bArray\b|HashMap|HashSet|Queue|spawn|String|to_string|\|\||::new\(")


def programs():
    """[(relpath, source path, argv)] of the runnable corpus, sorted."""
    root = os.path.join(REPO, "test", "rt")
    out, skipped = [], {}
    for dirpath, _, files in sorted(os.walk(root)):
        for f in sorted(files):
            if not f.endswith(".dora"):
                continue
            p = os.path.join(dirpath, f)
            rel = os.path.relpath(p, root)
            if rel.startswith(SKIP_DIRS) or rel in SKIP_FILES:
                skipped["excluded: " + SKIP_FILES.get(rel, "I/O fixture directory")] = skipped.get("excluded: " + SKIP_FILES.get(rel, "I/O fixture directory"), 0) + 1
                continue
            try:
                text = open(p, encoding="utf-8").read()
            except Exception:
                continue
            src, args, skip, boots_only = p, [], None, False
            for line in text.splitlines():
                line = line.strip()
                if not line.startswith("//="):
                    continue
                d = line[3:].strip().split(None, 1)
                if not d:
                    continue
                kw, rest = d[0], (d[1] if len(d) > 1 else "")
                if kw in ("ignore", "flaky", "timeout", "platform"):
                    skip = "directive " + kw
                elif kw == "file":
                    src = os.path.join(REPO, rest.strip().strip('"'))
                elif kw == "args":
                    args = rest.replace('"', " ").split()
                elif kw in ("boots",):
                    boots_only = True
                elif kw == "config" and "boots" in rest:
                    boots_only = True
            if skip is None:
                body = text if src == p else open(src, encoding="utf-8").read()
                for pat, why in SKIP_PATTERNS:
                    if pat.search(body):
                        skip = why
                        break
            if skip:
                skipped["excluded: " + skip] = skipped.get("excluded: " + skip, 0) + 1
                continue
            body = text if src == p else open(src, encoding="utf-8").read()
            weight = len(ALLOC_RE.findall(body))
            out.append({"rel": rel, "src": src, "args": args, "boots_only": boots_only, "weight": weight})
    return out, skipped


def _build(dora, boots, simlib, dbg, prog, gc, cg, tag, real=False):
    """Compile one corpus program for (gc, cg); link the simulated and the real executable.
    Returns (paths dict | None, reason)."""
    base = os.path.join(tb.TB, "corpus-%s" % tag)
    cmd = [dora, "compile", "-S", "--gc=" + gc, prog["src"], "-o", base]
    cmd += ["--cannon"] if cg == "cannon" else ["--compiler", boots]
    p = tb.sh(cmd, timeout=180)
    if p.returncode != 0:
        _rm(base)
        return None, "does not compile (negative test or needs special options)"
    p = tb.sh(["gcc", "-c", base + ".s", "-o", base + ".o"])
    if p.returncode != 0:
        _rm(base)
        return None, "assemble failed"
    kinds = [("sim", [simlib])]
    if real:
        kinds.append(("real", [os.path.join(dbg, "libdora_startup.a"), os.path.join(dbg, "libdora_runtime.a")]))
    for kind, libs in kinds:
        p = tb.sh(["gcc", base + ".o"] + libs + ["-Wl,-x", "-lpthread", "-ldl", "-lm", "-o", base + "." + kind])
        if p.returncode != 0:
            _rm(base)
            return None, "link failed"
    for ext in (".s", ".o"):
        try:
            os.remove(base + ext)
        except OSError:
            pass
    return {"sim": base + ".sim", "real": base + ".real", "base": base}, None


def _rm(base):
    for ext in (".s", ".o", ".sim", ".real"):
        try:
            os.remove(base + ext)
        except OSError:
            pass


def _reference(exe, args, flags=""):
    """Fault-free reference: no injected fault, every task runs until it blocks. (With
    `real` builds the same function runs the executable linked against the real runtime;
    VERIF_SIM is ignored there.)"""
    env = dict(os.environ)
    env["DORA_FLAGS"] = flags
    env["VERIF_SIM"] = "seed=1,policy=runtoblock"
    cwd = tempfile.mkdtemp(prefix="ref-", dir=tb.TB)
    t0 = time.time()
    try:
        p = subprocess.run([exe] + args, env=env, stdout=subprocess.PIPE, stderr=subprocess.PIPE, timeout=20, cwd=cwd)
        rc, out, err = p.returncode, p.stdout.decode(errors="replace"), p.stderr.decode(errors="replace")
    except subprocess.TimeoutExpired:
        return None
    finally:
        shutil.rmtree(cwd, ignore_errors=True)
    first = err.splitlines()[0] if err.strip() else ""
    return {"rc": rc, "stdout": out, "first_err": first, "wall": time.time() - t0}


def make_run(prog, gc, cg, exe, ref, cfg, fault_free, allocs, heap_floor):
    flags, workers, heap = tb.draw_gc_flags(cfg, gc)
    flags = [f for f in flags if not f.startswith("--max-heap-size") and not f.startswith("--min-heap-size")]
    heap = max(cfg.choice([32, 64, 128]), heap_floor)
    if gc != "zero":
        flags.append("--max-heap-size=%dM" % heap)
    faults = tb.draw_faults(cfg, fault_free)
    if not fault_free:
        if allocs * tb.gc_cost_ms(gc, heap, "--gc-verify" in flags) < 2500 and cfg.random() < 0.35:
            # a collection at every single allocation (the statement's own extreme)
            k = cfg.choice(["pminor", "pfull"]) if gc == "swiper" else "pfull"
            faults = {"pminor": 0, "pfull": 0, "pfail": 0, "burst": 0}
            faults[k] = 65536
        else:
            tb.cap_fault_rates(faults, max(allocs, 50), gc, heap, "--gc-verify" in flags, run_budget_ms=1500)
    sim = {"seed": cfg.getrandbits(48), "policy": tb.draw_policy(cfg, 2 + 2 * workers, 500 + allocs // 4), "hot": 0 if fault_free else cfg.choice([0, 300, 3000])}
    if gc == "swiper":
        sim["hotsweep"] = cfg.choice([sim["hot"], 20000, 65536])
    sim.update(faults)
    exp = {"rc": ref["rc"], "stdout": ref["stdout"]}
    if ref["first_err"]:
        exp["stderr_first"] = ref["first_err"]
    else:
        exp["stderr_empty"] = True
    return {"index": prog["index"], "exe": ["corpus:" + prog["rel"], gc, cg, "sim"], "argv": prog["args"], "dora_flags": " ".join(flags), "sim": sim,
            "expect": exp, "timeout": 120, "fault_free": fault_free,
            "tags": {"gc": gc, "codegen": cg, "fault_free": fault_free, "dir": prog["rel"].split("/")[0] if "/" in prog["rel"] else "."}}


def corpus_batch(tier, budget_s, key_fn=None, only=None):
    """Returns (coverage dict, reported list, exit code)."""
    dbg = build_repo(("dora", "dora-runtime", "dora-startup"))
    rel = build_sim(("dora-startup",))
    simlib = os.path.join(rel, "libdora_startup.a")
    dora = os.path.join(dbg, "dora")
    boots = os.path.join(tb.TB, "boots-stage1")
    os.makedirs(tb.TB, exist_ok=True)
    if not os.path.exists(boots) or os.path.getmtime(boots) < os.path.getmtime(dora):
        p = tb.sh([dora, "compile", "--internal-compile-boots", "--cannon", os.path.join(REPO, "pkgs/boots/boots.dora"), "-o", boots])
        if p.returncode != 0:
            harness_error("building boots stage1 failed")
    progs, skipped = programs()
    if only:
        progs = [p for p in progs if only in p["rel"]]
    s = seed()
    order = tb.stream(s, "C03", 0, "corpus-order")
    order.shuffle(progs)
    # programs that allocate (classes, collections, strings, closures, threads, forced
    # collections) first; within each group the seeded order decides
    progs.sort(key=lambda p: 0 if p["weight"] >= 3 else (1 if p["weight"] > 0 else 2))
    for i, p in enumerate(progs):
        p["index"] = 3_000_000 + i
    lock = threading.Lock()
    state = {"next": 0}
    t0 = time.time()
    stats = {"programs_tried": 0, "programs_checked": 0, "builds": 0, "sim_runs": 0, "fault_free_runs": 0, "fault_runs": 0, "passed": 0,
             "gc_minor_injected": 0, "gc_full_injected": 0, "alloc_fail_injected": 0, "stw_operations": 0, "decisions": 0, "preemptions": 0, "allocs": 0, "sweeps": 0,
             "every_allocation_runs": 0, "cross_collector_pairs": 0, "gate_pairs": 0}
    by = {}
    distinct = set()
    samples = []
    violations = []   # (run, res, v, paths)

    def note(k):
        skipped[k] = skipped.get(k, 0) + 1

    def one(prog):
        cfg = tb.stream(s, "C03", prog["index"], "corpus-config")
        cg = "boots" if prog["boots_only"] else cfg.choice(["cannon", "cannon", "boots"])
        gcs = cfg.sample(["copy", "sweep", "swiper", "swiper", "zero"], 2)
        if gcs[0] == gcs[1]:
            gcs[1] = "copy"
        refs = []
        built = []
        with lock:
            stats["programs_tried"] += 1
        keep = False
        try:
            for k, gc in enumerate(gcs):
                paths, why = _build(dora, boots, simlib, dbg, prog, gc, cg, "%d-%d-%d" % (os.getpid(), prog["index"], k))
                if paths is None:
                    note("skipped: " + why)
                    return
                built.append(paths)
                with lock:
                    stats["builds"] += 1
                ref = _reference(paths["sim"], prog["args"])
                if ref is None:
                    note("skipped: fault-free run needs more than 20 s")
                    return
                if ref["rc"] in (106, 107):
                    note("skipped: outcome depends on heap / stack size (reference ends in trap %d)" % ref["rc"])
                    return
                if ref["rc"] < 0:
                    note("skipped: fault-free reference run died with signal %d (not a C03 question)" % -ref["rc"])
                    log("corpus: reference run of %s (%s, %s) died with signal %d" % (prog["rel"], gc, cg, -ref["rc"]))
                    return
                refs.append(ref)
            a, b = refs
            if (a["rc"], a["stdout"], a["first_err"]) != (b["rc"], b["stdout"], b["first_err"]):
                run = {"index": prog["index"], "exe": ["corpus:" + prog["rel"], gcs[0] + "|" + gcs[1], cg, "pair"], "argv": prog["args"], "dora_flags": "", "sim": {}, "expect": {}}
                violations.append((run, {"rc": b["rc"], "stdout": b["stdout"], "stderr": b["first_err"], "stats": {}}, ("collector-dependent-output", "fault-free outcome differs between --gc=%s (%d, %r) and --gc=%s (%d, %r)" % (gcs[0], a["rc"], a["first_err"][:60], gcs[1], b["rc"], b["first_err"][:60])), None))
                return
            with lock:
                stats["cross_collector_pairs"] += 1
                stats["programs_checked"] += 1
            for k, gc in enumerate(gcs):
                exes = {("corpus:" + prog["rel"], gc, cg, "sim"): built[k]["sim"]}
                # fault-free simulated run first (also measures the allocation count)
                r0 = make_run(prog, gc, cg, built[k]["sim"], refs[k], tb.stream(s, "C03", prog["index"], "ff%d" % k), True, 0, 0)
                res0 = tb.execute(r0, exes)
                v0 = tb.classify(r0, res0)
                account(r0, res0, v0)
                if v0 is not None:
                    if v0[0] in ("timeout", "step-budget"):
                        note("skipped: simulated run exceeds its wall-clock limit or step budget (corpus programs are not bounded by construction)")
                        continue
                    violations.append((r0, res0, v0, built[k]))
                    keep = True
                    continue
                allocs = res0["stats"].get("allocs", 0)
                if allocs < 3:
                    note("trivial: fewer than 3 managed allocations (fault-free simulated run only)")
                    continue
                if res0["wall"] > 15:
                    note("skipped: fault-injecting run would be too slow")
                    continue
                r1 = make_run(prog, gc, cg, built[k]["sim"], refs[k], tb.stream(s, "C03", prog["index"], "fi%d" % k), False, allocs, 0)
                res1 = tb.execute(r1, exes)
                v1 = tb.classify(r1, res1)
                if v1 is not None and v1[0] == "trap:OOM" and gc == "zero":
                    # the zero collector never reclaims: every injected "collection" retires the
                    # current allocation buffer, so exhaustion is legitimate there
                    note("skipped: out of memory under the non-reclaiming zero collector")
                    continue
                if v1 is not None and v1[0] == "trap:OOM":
                    # does the real runtime, fault-free, fit into this heap at all?
                    m = re.search(r"--max-heap-size=\d+M", r1["dora_flags"])
                    rr = _reference(built[k]["sim"], prog["args"], flags=m.group(0) if m else "")
                    if rr is None or rr["rc"] == 106:
                        note("skipped: program does not fit the drawn heap size")
                        continue
                account(r1, res1, v1)
                if v1 is not None:
                    if v1[0] in ("timeout", "step-budget"):
                        note("skipped: simulated run exceeds its wall-clock limit or step budget (corpus programs are not bounded by construction)")
                        continue
                    violations.append((r1, res1, v1, built[k]))
                    keep = True
                elif prog["index"] % 16 == 0:
                    # determinism gate on a sample: the same run again must give the same trace
                    res2 = tb.execute(r1, exes)
                    if (res2["rc"], res2["stdout"], res2["stats"].get("trace_hash"), res2["stats"].get("allocs")) != (res1["rc"], res1["stdout"], res1["stats"].get("trace_hash"), res1["stats"].get("allocs")):
                        harness_error("determinism gate failed for corpus program %s" % prog["rel"])
                    with lock:
                        stats["gate_pairs"] += 1
        finally:
            if not keep:
                for paths in built:
                    _rm(paths["base"])

    def account(run, res, v):
        st = res["stats"]
        with lock:
            stats["sim_runs"] += 1
            stats["fault_free_runs" if run["fault_free"] else "fault_runs"] += 1
            for k in ("gc_minor_injected", "gc_full_injected", "alloc_fail_injected", "stw_operations", "decisions", "preemptions", "allocs", "sweeps"):
                stats[k] += st.get(k, 0)
            if run["sim"].get("pminor") == 65536 or run["sim"].get("pfull") == 65536:
                stats["every_allocation_runs"] += 1
            for k, val in run["tags"].items():
                key = "%s=%s" % (k, val)
                by[key] = by.get(key, 0) + 1
            if v is None:
                stats["passed"] += 1
                fired = st.get("gc_minor_injected", 0) + st.get("gc_full_injected", 0) + st.get("alloc_fail_injected", 0)
                if run["fault_free"] or fired > 0:
                    distinct.add(hashlib.sha256(json.dumps([run["exe"], run["dora_flags"], st.get("trace_hash")]).encode()).hexdigest()[:16])
                    if len(samples) < 3 and not run["fault_free"]:
                        samples.append({"program": run["exe"][0], "gc": run["exe"][1], "codegen": run["exe"][2], "dora_flags": run["dora_flags"], "sim": run["sim"],
                                        "stats": {k: st.get(k) for k in ("decisions", "preemptions", "trace_hash", "allocs", "gc_minor_injected", "gc_full_injected", "alloc_fail_injected", "stw_operations")}})

    def worker():
        while True:
            with lock:
                if time.time() - t0 > budget_s or state["next"] >= len(progs) or len(violations) >= 6:
                    return
                prog = progs[state["next"]]
                state["next"] += 1
            one(prog)

    threads = [threading.Thread(target=worker) for _ in range(JOBS)]
    for t in threads:
        t.start()
    for t in threads:
        t.join()

    reported = []
    exit_code = 0
    seen = set()
    violations.sort(key=lambda t: t[0]["index"])
    for run, res, v, paths in violations:
        key = key_fn(run, v, res) if (key_fn and paths) else "%s:%s" % (run["exe"][0], v[0])
        ckey = "%s:%s" % (v[0], run["exe"][0])
        if ckey in seen:
            continue
        seen.add(ckey)
        if paths is not None:
            exes = {tuple(run["exe"]): paths["sim"]}
            k = match_known("C03", key)
            if k is None and v[0] != "timeout":
                try:
                    run, res2, v2 = tb.minimise("C03", exes, run, v, lambda argv: iter(()), lambda argv, r: r["expect"], orig_wall=res.get("wall"))
                    if res2 is not None:
                        res, v = res2, v2
                except Exception as e:
                    log("minimisation failed: %r" % (e,))
            cres = tb.execute(run, exes)
            cv = tb.classify(run, cres)
            if cv is None or cv[0] != v[0]:
                harness_error("corpus violation %s of %s did not reproduce on replay" % (v[0], run["exe"][0]))
            res, v = cres, cv
        obj = {"property": "C03", "tier": "B", "kind": "corpus", "run": run, "violation_class": v[0], "violation": v[1],
               "observed": {"rc": res["rc"], "stdout_head": res["stdout"][:1500], "stderr_head": res["stderr"][:1500], "stats": res.get("stats", {})},
               "how_to_replay": "bin/check C03 --replay <this file> rebuilds this corpus program for the recorded collector / code generator and re-runs the recorded configuration"}
        rp = save_replay("C03", obj)
        k = match_known("C03", key)
        if k:
            report_known("C03", k["what"])
        else:
            report_violation("C03", rp)
            log("  class=%s detail=%s" % v)
            exit_code = 1
        reported.append({"class": v[0], "detail": v[1], "replay": rp, "key": key})
        if paths is not None:
            _rm(paths["base"])
    for run, res, v, paths in violations:
        if paths is not None:
            _rm(paths["base"])
    cov = dict(stats)
    cov.update({"corpus_size": len(progs), "skipped": skipped, "configuration_counts": by, "distinct_nontrivial": len(distinct), "samples": samples,
                "oracle": "exit status, exact stdout and first stderr line of the simulated fault-injected run == fault-free run-to-block run == the same program built for a second collector"})
    return cov, reported, exit_code


def replay(path):
    obj = json.load(open(path))
    run = obj["run"]
    rel = run["exe"][0].split(":", 1)[1]
    gc, cg, kind = run["exe"][1], run["exe"][2], run["exe"][3]
    dbg = build_repo(("dora", "dora-runtime", "dora-startup"))
    relsim = build_sim(("dora-startup",))
    dora = os.path.join(dbg, "dora")
    boots = os.path.join(tb.TB, "boots-stage1")
    os.makedirs(tb.TB, exist_ok=True)
    p = tb.sh([dora, "compile", "--internal-compile-boots", "--cannon", os.path.join(REPO, "pkgs/boots/boots.dora"), "-o", boots])
    if p.returncode != 0:
        harness_error("building boots stage1 failed")
    progs, _ = programs()
    prog = [p for p in progs if p["rel"] == rel]
    if not prog:
        harness_error("corpus program %s not found" % rel)
    prog = prog[0]
    if kind == "pair":
        outs = []
        for k, g in enumerate(gc.split("|")):
            paths, why = _build(dora, boots, os.path.join(relsim, "libdora_startup.a"), dbg, prog, g, cg, "replay-%d" % k)
            if paths is None:
                harness_error(why)
            r = _reference(paths["sim"], prog["args"])
            _rm(paths["base"])
            outs.append((r["rc"], r["stdout"], r["first_err"]) if r else None)
        if outs[0] == outs[1]:
            print("REPLAY-RESULT ok")
            return 0
        print("REPLAY-RESULT violation class=collector-dependent-output detail=%r vs %r" % (outs[0], outs[1]))
        return 1
    paths, why = _build(dora, boots, os.path.join(relsim, "libdora_startup.a"), dbg, prog, gc, cg, "replay")
    if paths is None:
        harness_error(why)
    res = tb.execute(run, {tuple(run["exe"]): paths["sim"]})
    _rm(paths["base"])
    v = tb.classify(run, res)
    if v is None:
        print("REPLAY-RESULT ok")
        return 0
    print("REPLAY-RESULT violation class=%s detail=%s" % v)
    return 1 if v[0] == obj["violation_class"] else 3
