"""Reference model for workloads/trapio.dora: expected stdout bytes, exit status, first stderr
line and the expected stack frames (function, line) for a script."""
import os, re

SRC = os.path.join(os.path.dirname(os.path.dirname(os.path.abspath(__file__))), "workloads", "trapio.dora")

TRAP = {
    1: (101, "division by 0"), 2: (102, "assert failed"), 3: (103, "array index out of bounds"), 4: (109, "overflow"),
    5: (110, "shift amount out of bounds"), 6: (106, "out of memory"), 7: (107, "stack overflow"), 8: (1, "unreachable code executed."),
    9: (1, "fatal error: boom"), 10: (3, None), 11: (106, "out of memory"),
}


def marks(src=None):
    m = {}
    for i, line in enumerate(open(src or SRC), 1):
        mm = re.search(r"// MARK:(\w+)", line)
        if mm:
            m[mm.group(1)] = i
    return m


def text(n, multibyte, breaks=False):
    out = []
    for i in range(n):
        if breaks and i % 11 == 5:
            out.append("\n")
        elif multibyte and i % 7 == 3:
            out.append("é")
        else:
            out.append(chr(ord("a") + i % 26))
    return "".join(out).encode("utf-8")


def parse(script):
    where, nprints = script[0], script[1]
    prints = [(script[2 + 2 * i], script[3 + 2 * i]) for i in range(nprints)]
    trap, depth = script[2 + 2 * nprints], script[3 + 2 * nprints]
    return where, prints, trap, depth


def make(where, prints, trap, depth):
    s = [where, len(prints)]
    for k, n in prints:
        s += [k, n]
    return s + [trap, depth]


LEAF = {1: "f_div", 2: "f_assert", 3: "f_index", 4: "f_overflow", 5: "f_shift"}


def expected(script, src=None):
    where, prints, trap, depth = parse(script)
    out = b""
    for kind, n in prints:
        out += text(n, (kind // 2) % 2 == 1, (kind // 4) % 2 == 1)
        if kind % 2 == 1:
            out += b"\n"
    mk = marks(src)
    exp = {"stdout": out, "rc": 0, "stderr_first": None, "frames": None}
    if trap == 0:
        exp["stdout"] = out + b"done\n"
        return exp
    rc, msg = TRAP[trap]
    exp["rc"] = rc
    exp["stderr_first"] = msg
    if trap == 10:
        return exp
    chain = [("level", mk["L0"])] + [("level", mk["L1"])] * depth + [("body", mk["B"])]
    if trap == 7:
        exp["frames"] = [("recurse", mk["7"])]  # the failing stack check is the callee's prologue
    elif trap in (6, 11):
        # innermost frames are inside the standard library (Array::fill); then the known chain
        exp["frames_after_std"] = [("fail", mk[str(trap)])] + chain
    elif trap in LEAF:
        exp["frames"] = [(LEAF[trap], mk[str(trap)]), ("fail", mk["F%d" % trap])] + chain
    else:
        exp["frames"] = [("fail", mk[str(trap)])] + chain
    return exp


def make_variant(dst, pads):
    """Write a layout variant of the driver: the i-th '// PAD' line becomes pads[i] statements
    that cannot trap (xor), which shifts code sizes and alignments of the leaf functions."""
    out = []
    k = 0
    for line in open(SRC):
        if line.strip() == "// PAD":
            n = pads[k % len(pads)]
            k += 1
            for j in range(n):
                out.append("    pad = pad ^ %d;\n" % (j + 3))
        else:
            out.append(line)
    with open(dst, "w") as f:
        f.writelines(out)


def parse_frames(stderr_text):
    """[(function, line)] from the stack trace lines '    name (file:line:col)'"""
    fr = []
    for line in stderr_text.splitlines()[1:]:
        m = re.match(r"\s+(.*) \((.*):(\d+):(\d+)\)\s*$", line)
        if m:
            fr.append((m.group(1), m.group(2), int(m.group(3))))
    return fr


MARKER = b"#\n"
NMARKERS = 80


def strip_markers(out):
    """where == 2: marker lines of the two printer threads may sit between any two print
    calls of the script (never inside one); a torn last marker is dropped as well."""
    if out.endswith(b"#"):
        out = out[:-1]
    return out.replace(MARKER, b"")


def generate(rng, concurrent=True):
    where = rng.choice([0, 0, 1, 2] if concurrent else [0, 0, 1])
    nprints = rng.randint(0, 6)
    prints = []
    for _ in range(nprints):
        kind = rng.choice([0, 0, 1, 1, 2, 3, 4, 4, 5, 6])
        n = rng.choice([0, 1, 5, 6, 7, 12, 17, 80, 500, 1000, 1023, 1024, 1025, 2000, 4096, 8191, 8192, 8193, 20000, 65536]) if rng.random() < 0.7 else rng.randint(0, 3000)
        prints.append((kind, n))
    trap = rng.choice([0, 1, 2, 3, 4, 5, 7, 8, 9, 10, 11, 1, 2, 3])
    depth = rng.randint(0, 6)
    return make(where, prints, trap, depth)
