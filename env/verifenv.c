// LD_PRELOAD interposer: the process-environment seam of Tier C.
//
//  getrandom()        -> bytes from a PRNG seeded by VERIF_RANDOM_SEED (=> every Rust
//                        HashMap RandomState and every tempfile name of the process)
//  clock_gettime/time/gettimeofday -> real value + VERIF_CLOCK_OFFSET seconds (realtime only)
//  write(fd=1)        -> fault plan from VERIF_IO, all decisions from its seed:
//       seed=<n>,short=<per1000>,eintr=<per1000>       recoverable faults
//       fatal=<errno-name>@<byte offset>               unrecoverable: from that many
//                                                      delivered bytes on, write fails
//                                                      (ENOSPC | EPIPE | EAGAIN | EIO)
//  write(fd=2)        -> errshort=<per1000>,erreintr=<per1000> in the same plan: recoverable
//                        faults on standard error (the trap report)
//                        errfatal=<errno-name>@<byte offset>: from that many delivered stderr
//                        bytes on every write to standard error fails
//     every fired fault is appended to the file named by VERIF_IO_LOG as one line.
// Built with: gcc -shared -fPIC -O2 -o verifenv.so verifenv.c -ldl
#define _GNU_SOURCE
#include <dlfcn.h>
#include <errno.h>
#include <fcntl.h>
#include <stdint.h>
#include <stdio.h>
#include <stdlib.h>
#include <string.h>
#include <sys/time.h>
#include <sys/types.h>
#include <time.h>
#include <unistd.h>

static uint64_t splitmix(uint64_t *x) {
  uint64_t z = (*x += 0x9e3779b97f4a7c15ULL);
  z = (z ^ (z >> 30)) * 0xbf58476d1ce4e5b9ULL;
  z = (z ^ (z >> 27)) * 0x94d049bb133111ebULL;
  return z ^ (z >> 31);
}

static ssize_t (*real_write)(int, const void *, size_t);
static int (*real_clock_gettime)(clockid_t, struct timespec *);

static int io_init_done;
static uint64_t io_state;
static int io_short, io_eintr, io_errshort, io_erreintr;
static int io_errfatal_errno;
static long io_errfatal_at = -1;
static long io_err_delivered;
static int io_fatal_errno;
static long io_fatal_at = -1;
static long io_delivered;
static int io_log_fd = -1;

static void io_log(const char *what, long a, long b) {
  if (io_log_fd < 0) return;
  char buf[96];
  int n = snprintf(buf, sizeof buf, "%s %ld %ld\n", what, a, b);
  if (!real_write) real_write = dlsym(RTLD_NEXT, "write");
  real_write(io_log_fd, buf, n);
}

static void io_init(void) {
  io_init_done = 1;
  const char *plan = getenv("VERIF_IO");
  const char *logp = getenv("VERIF_IO_LOG");
  if (logp) io_log_fd = open(logp, O_WRONLY | O_CREAT | O_APPEND | O_CLOEXEC, 0644);
  if (!plan) return;
  char *copy = strdup(plan), *save = NULL;
  for (char *tok = strtok_r(copy, ",", &save); tok; tok = strtok_r(NULL, ",", &save)) {
    if (!strncmp(tok, "seed=", 5)) io_state = strtoull(tok + 5, NULL, 10);
    else if (!strncmp(tok, "short=", 6)) io_short = atoi(tok + 6);
    else if (!strncmp(tok, "eintr=", 6)) io_eintr = atoi(tok + 6);
    else if (!strncmp(tok, "errshort=", 9)) io_errshort = atoi(tok + 9);
    else if (!strncmp(tok, "erreintr=", 9)) io_erreintr = atoi(tok + 9);
    else if (!strncmp(tok, "errfatal=", 9)) {
      char *at = strchr(tok, '@');
      if (at) { *at = 0; io_errfatal_at = atol(at + 1); }
      const char *e = tok + 9;
      io_errfatal_errno = !strcmp(e, "ENOSPC") ? ENOSPC : !strcmp(e, "EPIPE") ? EPIPE : !strcmp(e, "EAGAIN") ? EAGAIN : EIO;
    }
    else if (!strncmp(tok, "fatal=", 6)) {
      char *at = strchr(tok, '@');
      if (at) { *at = 0; io_fatal_at = atol(at + 1); }
      const char *e = tok + 6;
      io_fatal_errno = !strcmp(e, "ENOSPC") ? ENOSPC : !strcmp(e, "EPIPE") ? EPIPE : !strcmp(e, "EAGAIN") ? EAGAIN : EIO;
    }
  }
  free(copy);
}

ssize_t write(int fd, const void *buf, size_t n) {
  if (!real_write) real_write = dlsym(RTLD_NEXT, "write");
  if (fd != 1 && fd != 2) return real_write(fd, buf, n);
  if (!io_init_done) io_init();
  if (fd == 2 && io_errfatal_at >= 0) {
    if (io_err_delivered >= io_errfatal_at) {
      io_log("err-fatal", io_errfatal_errno, (long)n);
      errno = io_errfatal_errno;
      return -1;
    }
    if ((long)n > io_errfatal_at - io_err_delivered) {
      size_t k = (size_t)(io_errfatal_at - io_err_delivered);
      ssize_t r = real_write(fd, buf, k);
      if (r > 0) io_err_delivered += r;
      io_log("err-torn", (long)k, (long)n);
      return r;
    }
    ssize_t r = real_write(fd, buf, n);
    if (r > 0) io_err_delivered += r;
    return r;
  }
  if (fd == 2) {
    // recoverable faults on standard error
    if (io_erreintr > 0 && (int)(splitmix(&io_state) % 1000) < io_erreintr) {
      io_log("err-eintr", 0, (long)n);
      errno = EINTR;
      return -1;
    }
    if (io_errshort > 0 && n > 1 && (int)(splitmix(&io_state) % 1000) < io_errshort) {
      size_t k = 1 + (size_t)(splitmix(&io_state) % (n - 1));
      io_log("err-short", (long)k, (long)n);
      return real_write(fd, buf, k);
    }
    return real_write(fd, buf, n);
  }
  if (io_fatal_at >= 0) {
    if (io_delivered >= io_fatal_at) {
      io_log("fatal", io_fatal_errno, (long)n);
      errno = io_fatal_errno;
      return -1;
    }
    if ((long)n > io_fatal_at - io_delivered) {
      // torn write: only the part that still fits is delivered
      size_t k = (size_t)(io_fatal_at - io_delivered);
      ssize_t r = real_write(fd, buf, k);
      if (r > 0) io_delivered += r;
      io_log("torn", (long)k, (long)n);
      return r;
    }
  }
  if (io_eintr > 0 && (int)(splitmix(&io_state) % 1000) < io_eintr) {
    io_log("eintr", 0, (long)n);
    errno = EINTR;
    return -1;
  }
  if (io_short > 0 && n > 1 && (int)(splitmix(&io_state) % 1000) < io_short) {
    size_t k = 1 + (size_t)(splitmix(&io_state) % (n - 1));
    ssize_t r = real_write(fd, buf, k);
    if (r > 0) io_delivered += r;
    io_log("short", (long)k, (long)n);
    return r;
  }
  ssize_t r = real_write(fd, buf, n);
  if (r > 0) io_delivered += r;
  return r;
}

// ---- randomness --------------------------------------------------------------------------
static int rnd_init_done;
static uint64_t rnd_state;
static int rnd_on;

static void rnd_init(void) {
  rnd_init_done = 1;
  const char *s = getenv("VERIF_RANDOM_SEED");
  if (s) { rnd_on = 1; rnd_state = strtoull(s, NULL, 10); }
}

ssize_t getrandom(void *buf, size_t len, unsigned int flags) {
  if (!rnd_init_done) rnd_init();
  if (!rnd_on) {
    static ssize_t (*real)(void *, size_t, unsigned int);
    if (!real) real = dlsym(RTLD_NEXT, "getrandom");
    return real(buf, len, flags);
  }
  unsigned char *p = buf;
  for (size_t i = 0; i < len; i += 8) {
    uint64_t v = splitmix(&rnd_state);
    size_t k = len - i < 8 ? len - i : 8;
    memcpy(p + i, &v, k);
  }
  io_log("getrandom", (long)len, (long)flags);
  return (ssize_t)len;
}

// ---- clocks ------------------------------------------------------------------------------
static long clock_offset(void) {
  static int done; static long off;
  if (!done) { const char *s = getenv("VERIF_CLOCK_OFFSET"); off = s ? atol(s) : 0; done = 1; }
  return off;
}

int clock_gettime(clockid_t id, struct timespec *ts) {
  if (!real_clock_gettime) real_clock_gettime = dlsym(RTLD_NEXT, "clock_gettime");
  int r = real_clock_gettime(id, ts);
  if (r == 0 && id == CLOCK_REALTIME) ts->tv_sec += clock_offset();
  return r;
}

time_t time(time_t *t) {
  struct timespec ts;
  clock_gettime(CLOCK_REALTIME, &ts);
  if (t) *t = ts.tv_sec;
  return ts.tv_sec;
}

int gettimeofday(struct timeval *tv, void *tz) {
  struct timespec ts;
  clock_gettime(CLOCK_REALTIME, &ts);
  if (tv) { tv->tv_sec = ts.tv_sec; tv->tv_usec = ts.tv_nsec / 1000; }
  return 0;
}
